/-
C02 — Unrepresentable content is rejected (anti-aliasing / anti-imaging stopband).

Same split as C01: the attenuation figures are measured (oracle, every run); proved, about definitions regenerated from the
Rust source: the effective cutoff handed to the table, `calculate_cutoff ∈ (0,1)` and strictly increasing (so the stopband
edge `f_cutoff + (1 − calculate_cutoff)/min(1, ratio)` is well defined and above `f_cutoff`), the window constants are the
textbook Hann / Blackman / Blackman-Harris ones, the squared variants square exactly the named base window, the windows are
non-negative, vanish at the ends (Hann, Blackman) or are 6·10⁻⁵ there (Blackman-Harris) and are 1 at the centre.
-/
import RubatoProofs.Windows.Cutoff
import RubatoProofs.Windows.Symmetry
import RubatoModel.SincTable

set_option linter.unusedSectionVars false
set_option linter.unusedVariables false

namespace Rubato.C02
open Rubato Rubato.Gen

/-- the table is built with `f_cutoff` when up-sampling and `f_cutoff·ratio` when down-sampling, i.e. `f_cutoff·min(1, ratio)` -/
theorem effective_cutoff (fcut ratio : ℚ) :
    interpCutoff fcut ratio = if 1 ≤ ratio then fcut else fcut * ratio := by
  unfold interpCutoff
  simp only [Bridge.ge_eq, Bridge.one_eq, decide_eq_true_eq, Bridge.mul32_eq, Bridge.n32_eq]

theorem cutoff_in_unit_interval (n : ℕ) (w : Window) (hn : 1 ≤ n) :
    0 < Win.calculate_cutoff (ρ := ℚ) (σ := ℚ) n w ∧ Win.calculate_cutoff (ρ := ℚ) (σ := ℚ) n w < 1 :=
  ⟨WinProofs.cutoff_pos n w hn, WinProofs.cutoff_lt_one n w hn⟩

theorem cutoff_strictly_increasing (n m : ℕ) (w : Window) (hn : 1 ≤ n) (hnm : n < m) :
    Win.calculate_cutoff (ρ := ℚ) (σ := ℚ) n w < Win.calculate_cutoff (ρ := ℚ) (σ := ℚ) m w :=
  WinProofs.cutoff_strictMono n m w hn hnm

/-- the stopband edge lies above `f_cutoff`: the transition half-width `(1 − calculate_cutoff)/min(1,ratio)` is positive -/
theorem transition_width_positive (n : ℕ) (w : Window) (hn : 1 ≤ n) (m : ℚ) (hm : 0 < m) :
    0 < (1 - Win.calculate_cutoff (ρ := ℚ) (σ := ℚ) n w) / m :=
  div_pos (WinProofs.one_sub_cutoff_pos n w hn) hm

theorem hann_is_textbook [STrig ℚ] (N x : ℕ) :
    Win.hann_at (ρ := ℚ) (σ := ℚ) N x = 5 / 10 - 5 / 10 * STrig.cos (2 * STrig.pi * (x : ℚ) / (N : ℚ)) :=
  WinProofs.hann_textbook N x

theorem blackman_is_textbook [STrig ℚ] (N x : ℕ) :
    Win.blackman_at (ρ := ℚ) (σ := ℚ) N x
      = 42 / 100 - 5 / 10 * STrig.cos (2 * STrig.pi * (x : ℚ) / (N : ℚ))
        + 8 / 100 * STrig.cos (4 * STrig.pi * (x : ℚ) / (N : ℚ)) :=
  WinProofs.blackman_textbook N x

theorem blackmanHarris_is_textbook [STrig ℚ] (N x : ℕ) :
    Win.blackman_harris_at (ρ := ℚ) (σ := ℚ) N x
      = 35875 / 100000 - 48829 / 100000 * STrig.cos (2 * STrig.pi * (x : ℚ) / (N : ℚ))
        + 14128 / 100000 * STrig.cos (4 * STrig.pi * (x : ℚ) / (N : ℚ))
        - 1168 / 100000 * STrig.cos (6 * STrig.pi * (x : ℚ) / (N : ℚ)) :=
  WinProofs.blackmanHarris_textbook N x

/-- the `…2` variants square exactly their base window; the others are the base window (law-free: every instance) -/
theorem squared_variants {ρ σ : Type} [RNum ρ] [SNum ρ σ] [STrig σ] (w : Window) (N x : ℕ) :
    Win.make_window_at (ρ := ρ) (σ := σ) w N x =
      if Win.windowSquared w then
        Win.make_window_at (ρ := ρ) (WinProofs.baseWindow w) N x * Win.make_window_at (ρ := ρ) (WinProofs.baseWindow w) N x
      else Win.make_window_at (ρ := ρ) (WinProofs.baseWindow w) N x :=
  WinProofs.make_window_at_eq w N x

theorem squared_are_exactly (w : Window) :
    Win.windowSquared w = true ↔ (w = .blackman2 ∨ w = .blackmanHarris2 ∨ w = .hann2) :=
  WinProofs.windowSquared_iff w

open scoped Rubato.RealArith in
theorem windows_nonnegative (w : Window) (N x : ℕ) : 0 ≤ Win.make_window_at (ρ := ℝ) (σ := ℝ) w N x :=
  WinProofs.make_window_nonneg w N x

open scoped Rubato.RealArith in
theorem windows_are_one_at_centre (w : Window) (h : ℕ) (hh : 0 < h) :
    Win.make_window_at (ρ := ℝ) (σ := ℝ) w (2 * h) h = 1 :=
  WinProofs.window_centre w h hh

end Rubato.C02
