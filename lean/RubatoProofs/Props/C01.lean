/-
C01 — Band-limited signals are reproduced faithfully at the new rate (passband).

The dB / percent figures of the statement are numerical facts about six window functions over a four-parameter family;
proving them needs verified interval arithmetic for trigonometric sums, which is outside what can be done here: they are
MEASURED by the oracle on the real crate (every run) and on the table level.  What is logic — and is where realistic
breakage lives (time reversal of the table, wrong normalisation, wrong branch order, wrong blend nodes or fraction, lost
linear phase, wrong stepping) — is proved, about definitions regenerated from the Rust source on every run:

1. polyphase structure [law-free, every arithmetic instance]: entry `[s][p]` of `make_sincs` is the prototype tap
   `factor·p + factor−1−s` divided by the normalising sum; branch `s` is the prototype centred `(s+1)/factor` of a sample
   later than branch −1; consecutive branches are one prototype sample apart;
2. linear phase [exact, ℝ]: the prototype is even about its centre tap for all six windows;
3. gain [exact]: the taps of all branches sum to `factor` (mean DC gain exactly 1);
4. blend [exact]: `interp_cubic/quad/lin` reproduce every polynomial of degree ≤ 3/2/1 on their nodes, and the nodes handed
   to them by `get_nearest_times_k` are the instants `(⌊t·f⌋ + j)/f`, `j = −1..2 / 0..2 / 0..1`, with fraction `t·f − ⌊t·f⌋`;
   so the blended value is polynomial interpolation of the sub-filter outputs on the fine grid at the true instant;
5. stepping: output `j` is evaluated at `τ_0 + j/ratio` for every chunking (C05/C06/C07).
-/
import RubatoProofs.Windows.Cutoff
import RubatoProofs.Windows.Blend
import RubatoProofs.Windows.Gain
import RubatoProofs.Windows.Symmetry
import RubatoProofs.Lemmas.FormulaTie

set_option linter.unusedSectionVars false
set_option linter.unusedVariables false

namespace Rubato.C01
open Rubato Rubato.Gen

/-! ### 1. polyphase structure (law-free) -/

theorem table_entry {ρ σ : Type} [RNum ρ] [SNum ρ σ] [STrig σ] (npoints factor : ℕ) (fcut : ρ) (w : Window)
    (s p : ℕ) (hs : s < factor) (hp : p < npoints) :
    ((makeSincs (σ := σ) npoints factor fcut w).getD s #[]).getD p SNum.zero =
      sincProto npoints factor fcut w (WinProofs.tapIndex factor s p) / WinProofs.protoSum npoints factor fcut w :=
  WinProofs.makeSincs_entry npoints factor fcut w s p hs hp

/-- larger sub-filter index = one prototype sample (1/factor input sample) EARLIER taps = LATER evaluation instant -/
theorem consecutive_branches (factor s p : ℕ) (hs : s + 1 < factor) :
    WinProofs.tapIndex factor (s + 1) p + 1 = WinProofs.tapIndex factor s p :=
  WinProofs.tapIndex_succ factor s p hs

/-- branch `s` of a `2h`-tap table weights input sample `index + p` with the prototype at `(p+1−h) − (s+1)/factor` -/
theorem branch_instant (factor s p h : ℕ) (hs : s < factor) :
    (((WinProofs.tapIndex factor s p : ℕ) : ℚ) - ((2 * h * factor / 2 : ℕ) : ℚ)) / (factor : ℚ)
      = ((p : ℚ) + 1 - (h : ℚ)) - ((s : ℚ) + 1) / (factor : ℚ) :=
  WinProofs.tap_time factor s p h hs

/-! ### 2. linear phase -/

open scoped Rubato.RealArith in
theorem prototype_symmetric (npoints factor : ℕ) (fcut : ℝ) (w : Window) (d : ℕ)
    (heven : 2 ∣ npoints * factor) (hd : d ≤ npoints * factor / 2) :
    sincProto (ρ := ℝ) (σ := ℝ) npoints factor fcut w (npoints * factor / 2 + d)
      = sincProto (ρ := ℝ) npoints factor fcut w (npoints * factor / 2 - d) :=
  WinProofs.sincProto_symm npoints factor fcut w d heven hd

open scoped Rubato.RealArith in
theorem window_symmetric (w : Window) (N x : ℕ) (hN : 0 < N) (hx : x ≤ N) :
    Win.make_window_at (ρ := ℝ) (σ := ℝ) w N (N - x) = Win.make_window_at (ρ := ℝ) w N x :=
  WinProofs.make_window_symm w N x hN hx

/-! ### 3. gain -/

theorem dc_gain_is_one (npoints factor : ℕ) (fcut : ℚ) (w : Window) [STrig ℚ]
    (hS : WinProofs.protoSum (ρ := ℚ) (σ := ℚ) npoints factor fcut w ≠ 0) :
    ∑ s ∈ Finset.range factor, ∑ p ∈ Finset.range npoints,
      ((makeSincs (ρ := ℚ) (σ := ℚ) npoints factor fcut w).getD s #[]).getD p 0 = (factor : ℚ) :=
  WinProofs.dc_gain_rat npoints factor fcut w hS

/-! ### 4. blend -/

theorem blend_cubic_reproduces (c : Fin 4 → ℚ) (x : ℚ) :
    Sinc.interp_cubic x (fun k => BlendProofs.poly3 c ((k : ℚ) - 1)) = BlendProofs.poly3 c x :=
  BlendProofs.cubic_reproduces c x

theorem blend_quadratic_reproduces (c : Fin 3 → ℚ) (x : ℚ) :
    Sinc.interp_quad x (fun k => BlendProofs.poly2 c (k : ℚ)) = BlendProofs.poly2 c x :=
  BlendProofs.quad_reproduces c x

theorem blend_linear_reproduces (c : Fin 2 → ℚ) (x : ℚ) :
    Sinc.interp_lin x (fun k => BlendProofs.poly1 c (k : ℚ)) = BlendProofs.poly1 c x :=
  BlendProofs.lin_reproduces c x

/-- the four points of Cubic are the fine-grid instants `q−1, q, q+1, q+2` with `q = ⌊t·f⌋` -/
theorem cubic_points_are_the_neighbouring_instants (t : ℚ) (factor : ℕ) :
    BlendProofs.instants factor (nearestTimes .cubic t factor) =
      [⌊t * (factor : ℚ)⌋ - 1, ⌊t * (factor : ℚ)⌋, ⌊t * (factor : ℚ)⌋ + 1, ⌊t * (factor : ℚ)⌋ + 2] :=
  BlendProofs.cubic_instants t factor

/-- the blend fraction is the position inside the fine-grid cell -/
theorem blend_fraction (t : ℚ) (factor : ℕ) :
    sincFrac t factor = t * (factor : ℚ) - (⌊t * (factor : ℚ)⌋ : ℚ) ∧ 0 ≤ sincFrac t factor ∧ sincFrac t factor < 1 :=
  ⟨BlendProofs.sincFrac_eq t factor, (BlendProofs.sincFrac_range t factor).1, (BlendProofs.sincFrac_range t factor).2⟩

/-- if the sub-filter outputs are samples of a cubic in the fine-grid instant, the blended value is that cubic at the
true instant `t·f` -/
theorem blended_value_is_interpolation (ip : Interp ℚ) (L : ℕ) (b : Array ℚ) (t : ℚ) (c : Fin 4 → ℚ)
    (h : ∀ p ∈ nearestTimes .cubic t ip.nbr,
      ip.dot b (p.1 + 2 * (L : ℤ)).toNat p.2.toNat = BlendProofs.poly3 c ((p.1 * (ip.nbr : ℤ) + p.2 : ℤ) : ℚ)) :
    sincValue .cubic ip L b t = BlendProofs.poly3 c (t * (ip.nbr : ℚ)) :=
  BlendProofs.sincValue_cubic_reproduces ip L b t c h

end Rubato.C01

namespace Rubato.C01
open Rubato Rubato.Gen

/-- tie G11: the prototype the theorems of this file are about is `window[x] · sinc(arg(x))` with `sinc` and `arg` as
regenerated from sinc.rs in this run, and the table layout is the regenerated `sincs[factor − n − 1][p] = y[factor·p + n] / sum`
(the loop structure, the running sum and the normalisation by `sum / factor` are checked on the text by the translator) -/
theorem sinc_table_is_the_source_text {ρ σ : Type} [RNum ρ] [SNum ρ σ] [STrig σ]
    (npoints factor : Nat) (fcut : ρ) (w : Window) (x p s : Nat) (hs : s < factor) :
    sincProto (σ := σ) npoints factor fcut w x =
      Win.make_window_at (ρ := ρ) w (npoints * factor) x *
        SincRs.sinc_fn (ρ := ρ) (SincRs.sinc_arg (ρ := ρ) x (npoints * factor) factor fcut) ∧
    SincRs.sincs_row factor p (factor - 1 - s) = s ∧
    SincRs.sincs_src factor p (factor - 1 - s) = factor * p + (factor - 1 - s) :=
  ⟨rfl, (FormulaTie.sincs_layout factor p s hs).1, (FormulaTie.sincs_layout factor p s hs).2⟩

/-- tie G5: the (index, sub-index) pairs the blend theorems above speak about are produced by the statements of
`get_nearest_time` / `get_nearest_times_2/3/4` as regenerated from interpolation.rs in this run -/
theorem nearest_points_are_the_source_text {ρ : Type} [RNum ρ] (sint : SincInterp) (t : ρ) (factor : Nat) :
    nearestTimes sint t factor =
      (match sint with
       | .nearest =>
         let sub := Sinc.time_subindex t (factor : Int)
         if sub ≥ (factor : Int) then [(Sinc.time_index t (factor : Int) + 1, sub - factor)]
         else [(Sinc.time_index t (factor : Int), sub)]
       | .linear =>
         let sub := Sinc.times2_subindex t (factor : Int)
         let sub1 := sub + 1
         [(Sinc.times2_index t (factor : Int), sub),
          if sub1 ≥ (factor : Int) then (Sinc.times2_index t (factor : Int) + 1, sub1 - factor)
          else (Sinc.times2_index t (factor : Int), sub1)]
       | .quadratic =>
         let o := Sinc.nearestFirstOffset 3
         [wrapSub (Sinc.times3_start t (factor : Int)) (Sinc.times3_frac t (factor : Int) + o) factor,
          wrapSub (Sinc.times3_start t (factor : Int)) (Sinc.times3_frac t (factor : Int) + o + 1) factor,
          wrapSub (Sinc.times3_start t (factor : Int)) (Sinc.times3_frac t (factor : Int) + o + 2) factor]
       | .cubic =>
         let o := Sinc.nearestFirstOffset 4
         [wrapSub (Sinc.times4_start t (factor : Int)) (Sinc.times4_frac t (factor : Int) + o) factor,
          wrapSub (Sinc.times4_start t (factor : Int)) (Sinc.times4_frac t (factor : Int) + o + 1) factor,
          wrapSub (Sinc.times4_start t (factor : Int)) (Sinc.times4_frac t (factor : Int) + o + 2) factor,
          wrapSub (Sinc.times4_start t (factor : Int)) (Sinc.times4_frac t (factor : Int) + o + 3) factor]) :=
  FormulaTie.nearestTimes_is_generated sint t factor

end Rubato.C01
