/-
C09 — Real-time safety: process_into_buffer never touches the heap.

Allocation happens in compiled code and an allocator, which no theorem here reaches; what IS logic is proved:
1. the effect table — emitted by the translator's call-graph pass from /repo/src on every run (functions reachable,
   resolved by name, from each real-time method of each of the seven types; allocating constructs found in them, with
   `trace!`/`debug!` removed) — has no allocation site on any reachable path, for all 7 × 11 real-time methods, while the
   convenience wrappers do allocate (so the scan is known to see allocations);
2. [law-free] storage shapes: every internal buffer of the asynchronous model keeps its length under every operation, so
   the in-place algorithms never need to grow storage.
The tie to the compiled code is the counting global allocator of the harness (0 events around every real-time call).
-/
import RubatoProofs.Lemmas.Shape
import RubatoProofs.Props.C10
import RubatoProofs.Fft.Storage

namespace Rubato.C09
open Rubato Rubato.Gen

/-- no real-time method of any of the seven types reaches an allocating construct -/
theorem realtime_paths_do_not_allocate : ∀ e ∈ Effects.rtTable, e.2.2.2 = 0 := by decide

/-- the table covers every (type, real-time method) pair exactly once -/
theorem effect_table_complete :
    Effects.rtTable.length = Effects.nTypes * Effects.nRtMethods ∧
    (Effects.rtTable.map fun e => (e.1, e.2.1)) =
      (List.range Effects.nTypes).flatMap fun t => (List.range Effects.nRtMethods).map fun m => (t, m) := by
  decide

/-- every real-time entry point was found and scanned (at least the method itself is reachable) -/
theorem effect_table_scanned : ∀ e ∈ Effects.rtTable, 1 ≤ e.2.2.1 := by decide

/-- the scan does see allocations: each of the three convenience wrappers of each type allocates -/
theorem wrappers_do_allocate : ∀ e ∈ Effects.wrapperTable, 1 ≤ e.2.2.2 := by decide

variable {ρ σ : Type} [RNum ρ] [SNum ρ σ]

/-- [law-free] no operation of an asynchronous resampler changes the length of any internal buffer:
after any history the buffer shape is the one the constructor allocated. -/
theorem buffer_shape_invariant (kind : AKind) (ratio maxRel : ρ) (deg : Degree) (sint : SincInterp)
    (ip : Interp σ) (chunk nch : Nat) (s0 : AState ρ σ)
    (h : AState.init kind ratio maxRel deg sint ip chunk nch = .ok s0) (ops : List (AOp ρ σ)) :
    bufShape (s0.run ops).buf = bufShape s0.buf := by
  have hfix := C10.reset_init kind ratio maxRel deg sint ip chunk nch s0 h
  have h0 := C10.init_sameShape kind ratio maxRel deg sint ip chunk nch s0 h
  suffices ∀ s, SameShape s s0 → SameShape (s.run ops) s0 from (this s0 h0).shape
  induction ops with
  | nil => intro s hs; exact hs
  | cons op ops ih => intro s hs; exact ih _ (C10.step_sameShape s s0 hs hfix op)

/-- one processing call in particular keeps every buffer length (and the channel count) -/
theorem process_keeps_storage (s : AState ρ σ) (a : CallArgs σ) :
    bufShape (s.process a).1.buf = bufShape s.buf ∧ (s.process a).1.mask.length = (s.process a).1.mask.length :=
  ⟨(process_frame s a).shape, rfl⟩

end Rubato.C09

namespace Rubato.C09
open Rubato Rubato.FftProofs

/-- [law-free] the synchronous (FFT) resamplers: from an accepted constructor call, after ANY history of operations
(processing calls with arbitrary arguments and outcomes, resets, setters) every internal buffer has the length the
constructor gave it (`chunk + fft_size` per channel for FftFixedIn / FftFixedOut, no per-channel buffer for FftFixedInOut)
and there is one overlap state per channel — for every arithmetic and every per-block unit -/
theorem fft_storage_never_changes {σ υ : Type} {da : DivArith} {u : FftUnit σ υ} {zero : σ} {kind : FKind}
    {rateIn rateOut chunk sub nch : Nat} {s0 : FState σ υ}
    (h : FState.init da u zero kind rateIn rateOut chunk sub nch = .ok s0) (ops : List (FftProofs.Op σ)) :
    (runOps da u s0 ops).store.map List.length = initLens da kind rateIn rateOut chunk sub nch ∧
      (runOps da u s0 ops).ov.length = nch :=
  history_storage h ops

/-- one processing call in particular (whatever its outcome) keeps every buffer length -/
theorem fft_process_keeps_storage {σ υ : Type} (da : DivArith) (u : FftUnit σ υ) (s : FState σ υ)
    (input : List (List σ)) (outLens : List Nat) (um : Option (List Bool)) (h : StoreWF s) :
    ((s.process da u input outLens um).1.store.map List.length = s.store.map List.length) ∧
    (s.process da u input outLens um).1.ov.length = s.nch :=
  process_storage_wf da u s input outLens um h

end Rubato.C09
