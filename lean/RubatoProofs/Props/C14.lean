/-
C14 — output_delay() reports the true alignment delay of the output stream.

[exact]  From the stream refinement (C05/C06): output frame `j` (1-based over the whole stream, constant ratio `r`) is
evaluated at global input time `τ_j = −L/2 + j/r`.  An input event at frame `n` therefore appears centred at the 0-based
output frame `n·r + D` with the TRUE delay `D` below; `output_delay()` reports `⌊L·r/2⌋` (`L = 8` for the polynomial types).
* Fast (kernel centred AT τ):  D = 4r − 1, reported ⌊4r⌋ ∈ (D, D+1]:  within the tolerance of the statement for every ratio.
* Sinc: the polyphase branch `s` applied at buffer index `i` is the prototype centred `L/2 − 1 + (s+1)/f` samples after `i`
  (`tap_time`), so the kernel of frame `j` is centred at `j/r − 1 + 1/f` and  D = r·(1 − 1/f) − 1 ∈ (−1, r),  while
  `output_delay()` reports ⌊L·r/2⌋: the property is FALSE for the sinc types whenever (L/2 − 1 + 1/f)·r exceeds the
  tolerance (finding D1; e.g. L = 64, r = 2, f = 128: reported 64, true 0.98).
* FFT: the filter is symmetric about tap `fft_in/2` (linear phase, `sincProto_symm` with factor 1) and the getter reports
  `fft_out/2` output frames = `fft_in/2` input frames; that zero-padded FFT multiplication is linear convolution is a
  standard fact about the external FFT, assumed here and measured by the oracle.
-/
import RubatoProofs.Windows.Gain
import RubatoProofs.Lemmas.FormulaTie
import RubatoProofs.Windows.Symmetry
import RubatoProofs.Lemmas.RatBridge
import RubatoModel.Fft

set_option linter.unusedSectionVars false
set_option linter.unusedVariables false

namespace Rubato.C14
open Rubato Rubato.Bridge

/-- index (0-based) of the output frame evaluated exactly at input time `n`, when frame `j` (1-based) is evaluated at
`start + j/r`: `j − 1 = (n − start)·r − 1` -/
theorem frame_of_event (r start n : ℚ) (hr : 0 < r) (j : ℚ) (h : start + j / r = n) : j - 1 = n * r + (-start * r - 1) := by
  have hr0 : r ≠ 0 := ne_of_gt hr
  field_simp at h
  linarith

/-! ### polynomial resamplers -/

/-- true delay of FastFixedIn/Out: `D = 4r − 1` (first instant `−4 + 1/r`), reported `⌊8·r/2⌋` -/
theorem fast_reported_delay (r : ℚ) (hr : 0 < r) (s : AState ℚ ℚ) (hL : s.L = 8) (hrat : s.ratio = r) :
    s.outputDelay = ⌊4 * r⌋.toNat := by
  unfold AState.outputDelay
  rw [hL, hrat]
  simp only [ofNat_eq, two_eq]
  rw [toNat_of_nonneg (by positivity)]
  congr 2; push_cast; ring

/-- reported − true ∈ (0, 1]: inside the tolerance `max(1, r) + 1` for EVERY ratio and every degree -/
theorem fast_delay_within_tolerance (r : ℚ) (hr : 0 < r) :
    0 < ((⌊4 * r⌋.toNat : ℕ) : ℚ) - (4 * r - 1) ∧ ((⌊4 * r⌋.toNat : ℕ) : ℚ) - (4 * r - 1) ≤ 1 ∧
    |((⌊4 * r⌋.toNat : ℕ) : ℚ) - (4 * r - 1)| ≤ max 1 r + 1 := by
  have h0 : (0 : ℤ) ≤ ⌊4 * r⌋ := Int.floor_nonneg.2 (by positivity)
  have hc : ((⌊4 * r⌋.toNat : ℕ) : ℚ) = (⌊4 * r⌋ : ℚ) := by
    have : ((⌊4 * r⌋.toNat : ℕ) : ℤ) = ⌊4 * r⌋ := Int.toNat_of_nonneg h0
    exact_mod_cast this
  rw [hc]
  have h1 := Int.floor_le (4 * r)
  have h2 := Int.lt_floor_add_one (4 * r)
  refine ⟨by linarith, by linarith, ?_⟩
  rw [abs_le]
  have : (1 : ℚ) ≤ max 1 r := le_max_left _ _
  constructor <;> linarith

/-! ### sinc resamplers -/

/-- where a polyphase branch is centred: branch `s` of a `2h`-tap table applied at index `i` weights sample `i + p` with
the prototype at offset `(p + 1 − h) − (s+1)/f`, i.e. it is the prototype centred at `i + h − 1 + (s+1)/f` -/
theorem branch_centre (factor s p h : ℕ) (hs : s < factor) :
    (((WinProofs.tapIndex factor s p : ℕ) : ℚ) - ((2 * h * factor / 2 : ℕ) : ℚ)) / (factor : ℚ)
      = ((p : ℚ) - ((h : ℚ) - 1 + ((s : ℚ) + 1) / (factor : ℚ))) := by
  rw [WinProofs.tap_time factor s p h hs]; ring

/-- the kernel of output frame `j` is centred at global input time `(−L/2 + j/r) + L/2 − 1 + 1/f = j/r − 1 + 1/f`, so
the TRUE delay of the sinc resamplers is `D = r·(1 − 1/f) − 1 ∈ (−1, r)`, independent of the filter length -/
theorem sinc_true_delay (r : ℚ) (hr : 0 < r) (f : ℚ) (hf : 1 ≤ f) (Lh : ℚ) (n j : ℚ)
    (h : (-Lh + j / r) + Lh - 1 + 1 / f = n) :
    j - 1 = n * r + (r * (1 - 1 / f) - 1) ∧ -1 ≤ r * (1 - 1 / f) - 1 ∧ r * (1 - 1 / f) - 1 < r := by
  have hr0 : r ≠ 0 := ne_of_gt hr
  have hf0 : f ≠ 0 := by linarith
  have hinv : 0 < 1 / f := by positivity
  have hinv1 : 1 / f ≤ 1 := by rw [div_le_one (by linarith)]; exact hf
  refine ⟨?_, ?_, ?_⟩
  · have : j / r = n + 1 - 1 / f := by linarith
    have hj : j = (n + 1 - 1 / f) * r := by field_simp at this ⊢; linarith
    rw [hj]; ring
  · nlinarith
  · nlinarith

/-- reported delay of the sinc types: `⌊L·r/2⌋` -/
theorem sinc_reported_delay (s : AState ℚ ℚ) (h : 0 ≤ (s.L : ℚ) * s.ratio / 2) :
    s.outputDelay = ⌊(s.L : ℚ) * s.ratio / 2⌋.toNat := by
  unfold AState.outputDelay
  simp only [ofNat_eq, two_eq]
  rw [toNat_of_nonneg h]

/-- `…_false` (finding D1): `L = 64`, ratio 2, oversampling 128: reported 64, true `2·(1 − 1/128) − 1 < 1`, the
difference exceeds `max(1, 2) + 1 = 3` by far -/
theorem sinc_delay_false :
    let r : ℚ := 2
    let reported : ℚ := (⌊(64 : ℚ) * r / 2⌋.toNat : ℕ)
    let truth : ℚ := r * (1 - 1 / 128) - 1
    reported = 64 ∧ truth < 1 ∧ max 1 r + 1 < |reported - truth| := by
  intro r reported truth
  have h1 : reported = 64 := by
    show ((⌊(64 : ℚ) * 2 / 2⌋.toNat : ℕ) : ℚ) = 64
    have : ⌊(64 : ℚ) * 2 / 2⌋ = 64 := by norm_num
    rw [this]; rfl
  refine ⟨h1, by norm_num [truth, r], ?_⟩
  rw [h1]
  norm_num [truth, r, abs_of_pos]

/-- in general: whenever `(L/2 − 1 + 1/f)·r ≥ max(1,r) + 3` the reported value is outside the tolerance -/
theorem sinc_delay_false_general (L : ℕ) (r f : ℚ) (hr : 0 < r) (hf : 1 ≤ f)
    (hbig : max 1 r + 3 ≤ ((L : ℚ) / 2 - 1 + 1 / f) * r) :
    max 1 r + 1 < |((⌊(L : ℚ) * r / 2⌋ : ℤ) : ℚ) - (r * (1 - 1 / f) - 1)| := by
  have h2 := Int.lt_floor_add_one ((L : ℚ) * r / 2)
  have : max 1 r + 1 < ((⌊(L : ℚ) * r / 2⌋ : ℤ) : ℚ) - (r * (1 - 1 / f) - 1) := by
    have e : ((L : ℚ) / 2 - 1 + 1 / f) * r = (L : ℚ) * r / 2 - r * (1 - 1 / f) := by ring
    rw [e] at hbig
    linarith
  exact lt_of_lt_of_le this (le_abs_self _)

/-! ### FFT resamplers -/

/-- the getters report half an output block -/
theorem fft_reported_delay {σ υ : Type} (s : FState σ υ) :
    s.outputDelay = (match s.kind with | .fftIo => s.chunkOut / 2 | _ => s.fftOut / 2) := by
  unfold FState.outputDelay; cases s.kind <;> rfl

open scoped Rubato.RealArith in
/-- the anti-aliasing filter (`make_sincs(fft_in, 1, cutoff, BlackmanHarris2)`) is symmetric about tap `fft_in/2`:
linear phase with a delay of `fft_in/2` input frames = `fft_out/2` output frames -/
theorem fft_filter_symmetric (fftIn : ℕ) (fcut : ℝ) (d : ℕ) (heven : 2 ∣ fftIn * 1) (hd : d ≤ fftIn * 1 / 2) :
    sincProto (ρ := ℝ) (σ := ℝ) fftIn 1 fcut .blackmanHarris2 (fftIn * 1 / 2 + d)
      = sincProto (ρ := ℝ) fftIn 1 fcut .blackmanHarris2 (fftIn * 1 / 2 - d) :=
  WinProofs.sincProto_symm fftIn 1 fcut .blackmanHarris2 d heven hd

/-- `fft_in/2` input frames are `fft_out/2` output frames (block sizes are in the ratio of the rates) -/
theorem fft_delay_in_output_frames (fi fo ri ro : ℕ) (h : fi * ro = fo * ri) (hri : 0 < ri) :
    ((fi : ℚ) / 2) * ((ro : ℚ) / ri) = (fo : ℚ) / 2 := by
  have : (fi : ℚ) * ro = fo * ri := by exact_mod_cast h
  have hri' : (ri : ℚ) ≠ 0 := by exact_mod_cast hri.ne'
  field_simp
  linarith

end Rubato.C14

namespace Rubato.C14
open Rubato Rubato.Gen

/-- the reported-delay formula of the model is literally the one regenerated from the four `output_delay` bodies -/
theorem reported_delay_is_the_sources {ρ σ : Type} [RNum ρ] [SNum ρ σ] (s : AState ρ σ) :
    (s.L = Fast.polyLen → s.outputDelay = Formulas.fastIn_output_delay s.ratio ∧
        s.outputDelay = Formulas.fastOut_output_delay s.ratio) ∧
    s.outputDelay = Formulas.sincIn_output_delay s.L s.ratio ∧
    s.outputDelay = Formulas.sincOut_output_delay s.L s.ratio :=
  FormulaTie.output_delay σ s

end Rubato.C14

namespace Rubato.C14
/-- … and each regenerated formula reads exactly the struct fields the model feeds it (guards against wrong-field slips) -/
theorem formulas_read_the_expected_fields_C14 :
    (Rubato.Gen.Formulas.formulaParams.map (·.1)).length = 24 ∧
    Rubato.Gen.Formulas.formulaParams.lookup "fastIn_output_delay" = some ["resample_ratio"] ∧
    Rubato.Gen.Formulas.formulaParams.lookup "fastOut_output_delay" = some ["resample_ratio"] ∧
    Rubato.Gen.Formulas.formulaParams.lookup "sincIn_output_delay" = some ["sinc_len", "resample_ratio"] ∧
    Rubato.Gen.Formulas.formulaParams.lookup "sincOut_output_delay" = some ["sinc_len", "resample_ratio"] := by
  rw [Rubato.FormulaTie.formulas_read_the_expected_fields]
  decide
end Rubato.C14
