/-
C08 — Polynomial resamplers reproduce polynomials up to their degree exactly.

All theorems are about the *generated* kernels `Rubato.Gen.Fast.interp_*` (translated from
/repo/src/asynchro_fast.rs on every run) instantiated at exact arithmetic (ρ = σ = ℚ).
-/
import RubatoModel.Generated
import RubatoProofs.Async.Stream
import Mathlib.Tactic.Ring
import Mathlib.Tactic.NormNum
import Mathlib.Algebra.BigOperators.Group.Finset.Basic
import Mathlib.Algebra.Order.Field.Basic
import Mathlib.Data.Rat.Defs

namespace Rubato.C08
open Rubato Rubato.Gen

/-- a polynomial of degree ≤ 7 given by its eight coefficients -/
def poly7 (c : Fin 8 → ℚ) (u : ℚ) : ℚ :=
  c 0 + c 1 * u + c 2 * u^2 + c 3 * u^3 + c 4 * u^4 + c 5 * u^5 + c 6 * u^6 + c 7 * u^7

def poly5 (c : Fin 6 → ℚ) (u : ℚ) : ℚ :=
  c 0 + c 1 * u + c 2 * u^2 + c 3 * u^3 + c 4 * u^4 + c 5 * u^5

def poly3 (c : Fin 4 → ℚ) (u : ℚ) : ℚ :=
  c 0 + c 1 * u + c 2 * u^2 + c 3 * u^3

def poly1 (c : Fin 2 → ℚ) (u : ℚ) : ℚ :=
  c 0 + c 1 * u

/-! ### Reproduction: samples of a polynomial of admissible degree at the documented nodes
give back the polynomial at every `x` (not only in `[0,1)`). -/

/-- Septic: nodes `-3..4`. -/
theorem septic_reproduces (c : Fin 8 → ℚ) (x : ℚ) :
    Fast.interp_septic x (fun k => poly7 c ((k : ℚ) - 3)) = poly7 c x := by
  simp only [Fast.interp_septic, SNum.ofCtl, RNum.lit, poly7]
  ring

/-- Quintic: nodes `-2..3`. -/
theorem quintic_reproduces (c : Fin 6 → ℚ) (x : ℚ) :
    Fast.interp_quintic x (fun k => poly5 c ((k : ℚ) - 2)) = poly5 c x := by
  simp only [Fast.interp_quintic, SNum.ofCtl, RNum.lit, poly5]
  ring

/-- Cubic: nodes `-1..2`. -/
theorem cubic_reproduces (c : Fin 4 → ℚ) (x : ℚ) :
    Fast.interp_cubic x (fun k => poly3 c ((k : ℚ) - 1)) = poly3 c x := by
  simp only [Fast.interp_cubic, SNum.ofCtl, RNum.lit, poly3]
  ring

/-- Linear: nodes `0..1`. -/
theorem linear_reproduces (c : Fin 2 → ℚ) (x : ℚ) :
    Fast.interp_lin x (fun k => poly1 c (k : ℚ)) = poly1 c x := by
  simp only [Fast.interp_lin, poly1]
  ring

/-! ### Interpolation: for *arbitrary* samples the kernel passes through every node, so (being a
polynomial in `x` of degree ≤ 7/5/3/1) it is the unique interpolating polynomial. -/

theorem septic_nodes (y : Nat → ℚ) :
    Fast.interp_septic (-3) y = y 0 ∧ Fast.interp_septic (-2) y = y 1 ∧
    Fast.interp_septic (-1) y = y 2 ∧ Fast.interp_septic 0 y = y 3 ∧
    Fast.interp_septic 1 y = y 4 ∧ Fast.interp_septic 2 y = y 5 ∧
    Fast.interp_septic 3 y = y 6 ∧ Fast.interp_septic 4 y = y 7 := by
  simp only [Fast.interp_septic, SNum.ofCtl, RNum.lit]
  refine ⟨?_, ?_, ?_, ?_, ?_, ?_, ?_, ?_⟩ <;> ring

theorem quintic_nodes (y : Nat → ℚ) :
    Fast.interp_quintic (-2) y = y 0 ∧ Fast.interp_quintic (-1) y = y 1 ∧
    Fast.interp_quintic 0 y = y 2 ∧ Fast.interp_quintic 1 y = y 3 ∧
    Fast.interp_quintic 2 y = y 4 ∧ Fast.interp_quintic 3 y = y 5 := by
  simp only [Fast.interp_quintic, SNum.ofCtl, RNum.lit]
  refine ⟨?_, ?_, ?_, ?_, ?_, ?_⟩ <;> ring

theorem cubic_nodes (y : Nat → ℚ) :
    Fast.interp_cubic (-1) y = y 0 ∧ Fast.interp_cubic 0 y = y 1 ∧
    Fast.interp_cubic 1 y = y 2 ∧ Fast.interp_cubic 2 y = y 3 := by
  simp only [Fast.interp_cubic, SNum.ofCtl, RNum.lit]
  refine ⟨?_, ?_, ?_, ?_⟩ <;> ring

theorem linear_nodes (y : Nat → ℚ) :
    Fast.interp_lin 0 y = y 0 ∧ Fast.interp_lin 1 y = y 1 := by
  simp only [Fast.interp_lin]
  refine ⟨?_, ?_⟩ <;> ring

/-! ### Uniqueness: each kernel *is* the textbook Lagrange interpolation formula on its nodes
(`lo, lo+1, …, lo+n-1`), i.e. the unique polynomial of degree `< n` through the `n` samples. -/

/-- Lagrange interpolation through `(lo + j, y j)`, `j < n`, evaluated at `x`. -/
def lagrange (lo : ℚ) (n : ℕ) (y : ℕ → ℚ) (x : ℚ) : ℚ :=
  ∑ j ∈ Finset.range n, y j *
    ∏ m ∈ Finset.range n, if m = j then 1 else (x - (lo + m)) / ((lo + j) - (lo + m))

theorem septic_is_lagrange (y : ℕ → ℚ) (x : ℚ) :
    Fast.interp_septic x y = lagrange (-3) 8 y x := by
  simp only [Fast.interp_septic, SNum.ofCtl, RNum.lit, lagrange, Finset.sum_range_succ,
    Finset.prod_range_succ, Finset.sum_range_zero, Finset.prod_range_zero]
  norm_num
  ring

theorem quintic_is_lagrange (y : ℕ → ℚ) (x : ℚ) :
    Fast.interp_quintic x y = lagrange (-2) 6 y x := by
  simp only [Fast.interp_quintic, SNum.ofCtl, RNum.lit, lagrange, Finset.sum_range_succ,
    Finset.prod_range_succ, Finset.sum_range_zero, Finset.prod_range_zero]
  norm_num
  ring

theorem cubic_is_lagrange (y : ℕ → ℚ) (x : ℚ) :
    Fast.interp_cubic x y = lagrange (-1) 4 y x := by
  simp only [Fast.interp_cubic, SNum.ofCtl, RNum.lit, lagrange, Finset.sum_range_succ,
    Finset.prod_range_succ, Finset.sum_range_zero, Finset.prod_range_zero]
  norm_num
  ring

theorem linear_is_lagrange (y : ℕ → ℚ) (x : ℚ) :
    Fast.interp_lin x y = lagrange 0 2 y x := by
  simp only [Fast.interp_lin, lagrange, Finset.sum_range_succ,
    Finset.prod_range_succ, Finset.sum_range_zero, Finset.prod_range_zero]
  norm_num
  ring

/-! ### The window table read from the ten loop bodies: the node the kernel calls `0`
is `⌊idx⌋`, i.e. the kernel's node `j` (0-based in the slice) sits `j - offset` samples from `⌊idx⌋`,
and the documented node sets are exactly `-offset .. width-1-offset`. -/

theorem window_table :
    Fast.fastWindow .septic = (3, 8, .septic) ∧ Fast.fastWindow .quintic = (2, 6, .quintic) ∧
    Fast.fastWindow .cubic = (1, 4, .cubic) ∧ Fast.fastWindow .linear = (0, 2, .lin) ∧
    Fast.fastWindow .nearest = (0, 1, .nearest) ∧ Fast.polyLen = 8 := by
  refine ⟨rfl, rfl, rfl, rfl, rfl, rfl⟩

/-- every window fits in the `2·polyLen` pre-roll convention: offset + width ≤ polyLen + offset ≤ 2·polyLen -/
theorem window_fits (d : Degree) :
    (Fast.fastWindow d).1 ≤ 3 ∧ (Fast.fastWindow d).2.1 ≤ Fast.polyLen ∧
    (Fast.fastWindow d).1 + 1 ≤ (Fast.fastWindow d).2.1 := by
  cases d <;> simp [Fast.fastWindow, Fast.polyLen]

/-! ### Non-vacuity -/
example : Fast.interp_septic (1/2 : ℚ) (fun k => ((k : ℚ) - 3)^7) = (1/2)^7 := by
  have h := septic_reproduces (fun i => if i = 7 then 1 else 0) (1/2)
  simpa [poly7] using h

end Rubato.C08

/-! ### Stream corollary: a polynomial input is reproduced at the evaluation instants, for every ratio and chunking -/

namespace Rubato.C08
open Rubato Rubato.Gen Rubato.Stream

/-- reproduction on nodes shifted by an arbitrary `a` (the window sits at `⌊τ⌋`) -/
theorem septic_reproduces_shift (c : Fin 8 → ℚ) (a x : ℚ) :
    Fast.interp_septic x (fun k => poly7 c (a + (k : ℚ) - 3)) = poly7 c (a + x) := by
  simp only [Fast.interp_septic, SNum.ofCtl, RNum.lit, poly7]
  ring

theorem cubic_reproduces_shift (c : Fin 4 → ℚ) (a x : ℚ) :
    Fast.interp_cubic x (fun k => poly3 c (a + (k : ℚ) - 1)) = poly3 c (a + x) := by
  simp only [Fast.interp_cubic, SNum.ofCtl, RNum.lit, poly3]
  ring

theorem linear_reproduces_shift (c : Fin 2 → ℚ) (a x : ℚ) :
    Fast.interp_lin x (fun k => poly1 c (a + (k : ℚ))) = poly1 c (a + x) := by
  simp only [Fast.interp_lin, poly1]
  ring

/-- the stream specification of the septic resampler reproduces a degree-7 polynomial wherever its 8-sample window
carries that polynomial -/
theorem fastSpec_septic_reproduces (c : Fin 8 → ℚ) (xz : ℤ → ℚ) (τ : ℚ)
    (h : ∀ k : ℕ, k < 8 → xz (⌊τ⌋ - 3 + (k : ℤ)) = poly7 c (((⌊τ⌋ - 3 + (k : ℤ) : ℤ)) : ℚ)) :
    fastSpec .septic xz τ = poly7 c τ := by
  unfold fastSpec
  have hw : Fast.fastWindow .septic = (3, 8, .septic) := rfl
  rw [fastKernel_congr .septic _ _ (fun k => poly7 c ((⌊τ⌋ : ℚ) + (k : ℚ) - 3))]
  · simp only [fastKernel, hw]
    rw [septic_reproduces_shift c (⌊τ⌋ : ℚ) (τ - (⌊τ⌋ : ℤ))]
    congr 1; ring
  · intro k hk
    have hk8 : k < 8 := hk
    simp only [hw]
    have e : (⌊τ⌋ - ((3 : ℕ) : ℤ) + (k : ℤ)) = ⌊τ⌋ - 3 + (k : ℤ) := by norm_num
    rw [e, h k hk8]
    congr 1; push_cast; ring

/-- **C08 for streams (septic)**: FastFixedIn/Out with `Septic`, any ratio, any chunking: every output frame whose window
lies on samples of a polynomial `p` of degree ≤ 7 equals `p` at the frame's evaluation instant `−4 + (j+1)/ratio`. -/
theorem septic_stream_reproduces_polynomial {kind : AKind} (hk : kind.isSinc = false) {r maxRel : ℚ}
    {sint : SincInterp} {ip : Interp ℚ} {chunk : ℕ} {s0 s : AState ℚ ℚ} {X O : List ℚ}
    (hinit : AState.init kind r maxRel .septic sint ip chunk 1 = .ok s0)
    (hc : kind.isFixedIn = false → 0 < chunk) (hrun : Run s0 s X O) (c : Fin 8 → ℚ) (j : ℕ) (hj : j < O.length)
    (hwin : ∀ k : ℕ, k < 8 →
      Xz X (⌊(-((Lof kind ip / 2 : ℕ) : ℚ) + ((j : ℚ) + 1) / r)⌋ - 3 + (k : ℤ)) =
        poly7 c (((⌊(-((Lof kind ip / 2 : ℕ) : ℚ) + ((j : ℚ) + 1) / r)⌋ - 3 + (k : ℤ) : ℤ)) : ℚ)) :
    O.getD j 0 = poly7 c (-((Lof kind ip / 2 : ℕ) : ℚ) + ((j : ℚ) + 1) / r) := by
  have hev : kind = .sincOut → 2 ∣ ip.len := by intro h; rw [h] at hk; simp [AKind.isSinc] at hk
  have hloc : kind.isSinc = true → Local ip := by intro h; rw [hk] at h; cases h
  have := stream_spec_ext hinit hc hev hloc hrun [] j hj
  rw [this, List.append_nil]
  simp only [specOf, hk, Bool.false_eq_true, if_false]
  exact fastSpec_septic_reproduces c (Xz X) _ hwin

end Rubato.C08
