/-
C17 — f32 and f64 instantiations agree to single precision and in all frame counts.

[law-free]  The control projection of every operation never mentions the sample type: for ANY two sample types over the
same control arithmetic (in particular `Float32` and `Float` over the IEEE `Float` control arithmetic — the instantiation
the correspondence check runs against the Rust code), related states and same-shaped arguments give related states and
same-shaped outcomes; hence identical getter sequences, returned counts and `Result` shapes along every history.
The numeric closeness of the outputs (a small multiple of f32 epsilon times the peak) is measured by the oracle, not proved.
-/
import RubatoProofs.Indep.SampleType

set_option linter.unusedSectionVars false
set_option linter.unusedVariables false

namespace Rubato.C17
open Rubato Rubato.Indep

variable {ρ σ₁ σ₂ : Type} [RNum ρ] [SNum ρ σ₁] [SNum ρ σ₂]

/-- one processing call: related states + arguments of the same shape ⇒ related states and outcomes of the same shape
(both `Ok` with equal counts and per-channel sizes, or the same `Err`, or both panic / both abort) -/
theorem one_call_same_control {s₁ : AState ρ σ₁} {s₂ : AState ρ σ₂} {a₁ : CallArgs σ₁} {a₂ : CallArgs σ₂}
    (h : CtlEq s₁ s₂) (ha : ArgsEq a₁ a₂) :
    CtlEq (s₁.process a₁).1 (s₂.process a₂).1 ∧ OutEq (s₁.process a₁).2 (s₂.process a₂).2 :=
  process_ctlEq h ha

/-- all getters agree on related states -/
theorem getters_agree {s₁ : AState ρ σ₁} {s₂ : AState ρ σ₂} (h : CtlEq s₁ s₂) :
    s₁.inputFramesNext = s₂.inputFramesNext ∧ s₁.inputFramesMax = s₂.inputFramesMax ∧
    s₁.outputFramesNext = s₂.outputFramesNext ∧ s₁.outputFramesMax = s₂.outputFramesMax ∧
    s₁.outputDelay = s₂.outputDelay :=
  getters_ctlEq h

/-- **whole histories from the constructors**: the sample-free observation traces (per operation: result shape,
`input_frames_next`, `output_frames_next`) of the two instantiations are EQUAL lists, for histories of any length -/
theorem same_control_trace (kind : AKind) (ratio maxRel : ρ) (deg : Degree) (sint : SincInterp)
    (ip₁ : Interp σ₁) (ip₂ : Interp σ₂) (hl : ip₁.len = ip₂.len) (hn : ip₁.nbr = ip₂.nbr) (chunk nch : Nat)
    (s₁ : AState ρ σ₁) (s₂ : AState ρ σ₂)
    (h₁ : AState.init kind ratio maxRel deg sint ip₁ chunk nch = .ok s₁)
    (h₂ : AState.init kind ratio maxRel deg sint ip₂ chunk nch = .ok s₂)
    {ops₁ : List (AOp ρ σ₁)} {ops₂ : List (AOp ρ σ₂)} (ho : OpsEq ops₁ ops₂) :
    obsTrace s₁ ops₁ = obsTrace s₂ ops₂ ∧ CtlEq (s₁.run ops₁) (s₂.run ops₂) :=
  trace_eq_from_init kind ratio maxRel deg sint ip₁ ip₂ hl hn chunk nch s₁ s₂ h₁ h₂ ho

/-- the instantiation the harness runs: f32 samples vs f64 samples over IEEE control arithmetic -/
theorem f32_f64_same_control_trace (kind : AKind) (ratio maxRel : Float) (deg : Degree) (sint : SincInterp)
    (ip₁ : Interp Float32) (ip₂ : Interp Float) (hl : ip₁.len = ip₂.len) (hn : ip₁.nbr = ip₂.nbr) (chunk nch : Nat)
    (s₁ : AState Float Float32) (s₂ : AState Float Float)
    (h₁ : AState.init kind ratio maxRel deg sint ip₁ chunk nch = .ok s₁)
    (h₂ : AState.init kind ratio maxRel deg sint ip₂ chunk nch = .ok s₂)
    {ops₁ : List (AOp Float Float32)} {ops₂ : List (AOp Float Float)} (ho : OpsEq ops₁ ops₂) :
    obsTrace s₁ ops₁ = obsTrace s₂ ops₂ :=
  trace_eq_f32_f64 kind ratio maxRel deg sint ip₁ ip₂ hl hn chunk nch s₁ s₂ h₁ h₂ ho

/-- FFT adapters: with units whose output lengths depend only on input lengths, control state and outcome shapes agree -/
theorem fft_same_control {υ₁ υ₂ : Type} (da : DivArith) {u₁ : FftUnit σ₁ υ₁} {u₂ : FftUnit σ₂ υ₂}
    (hu : UnitLenEq u₁ u₂) {s₁ : FState σ₁ υ₁} {s₂ : FState σ₂ υ₂} (h : FCtlEq s₁ s₂)
    {in₁ : List (List σ₁)} {in₂ : List (List σ₂)} (hin : in₁.map List.length = in₂.map List.length)
    (outLens : List Nat) (um : Option (List Bool)) :
    FCtlEq (FState.process da u₁ s₁ in₁ outLens um).1 (FState.process da u₂ s₂ in₂ outLens um).1 ∧
    FOutEq (FState.process da u₁ s₁ in₁ outLens um).2 (FState.process da u₂ s₂ in₂ outLens um).2 :=
  fft_process_ctlEq da hu h hin outLens um

end Rubato.C17
