/-
C06 — Ratio changes produce a continuous, forward-only time warp (no glitches).

[exact, ρ = ℚ]  The input-time instants at which successive output frames are evaluated are the positions of the
stepping loops (`stepsOut`, `stepsIn`) plus the number of frames consumed before the call.
* fixed-output types (FULL statement): within a call the j-th spacing is `t0 + j·(t1−t0)/c`, `j = 1..c`: strictly
  positive, between `1/old` and `1/new`, monotone towards `1/new`, equal to `1/new` at the last frame; the state then
  holds `ratio = target`, so the whole next chunk runs at `1/new`; a non-ramped change sets `ratio = target = new`
  before the next call, so it applies from its first frame; positions are strictly increasing; every read lies in the
  frames loaded for the call (one-frame overshoot at integer positions for small oversampling factors: finding D14).
* fixed-input types: the spacing is `t0 + j·(t1−t0)/A` with `A = c·(r0+r1)/2`; at constant ratio it is constant and
  reads stay in supplied data; during a ramp the number of frames is not bounded by `A`, so the spacing can leave the
  interval between the reciprocals: the clause is FALSE (finding D11, witness below).
-/
import RubatoProofs.Async.FixedIn
import RubatoProofs.Async.FixedOut
import RubatoProofs.Props.C12
import RubatoProofs.Lemmas.FormulaTie
import RubatoProofs.Async.OddLength

set_option linter.unusedSectionVars false
set_option linter.unusedVariables false

namespace Rubato.C06
open Rubato Rubato.Bridge

/-! ### fixed-output: the full statement -/

/-- the positions of a call are `last + k·t0 + inc·k(k+1)/2`, consecutive ones differ by the step `t0 + j·inc` -/
theorem fixedOut_instants (inc t idx : ℚ) (n : ℕ) :
    stepsOut inc n t idx = (List.range n).map (fun k => FixedOut.pos inc t idx (k + 1)) ∧
    ∀ j, FixedOut.pos inc t idx (j + 1) - FixedOut.pos inc t idx j = t + ((j : ℚ) + 1) * inc :=
  ⟨FixedOut.stepsOut_eq_map inc n t idx, fun j => FixedOut.pos_succ_sub inc t idx j⟩

/-- spacing lies between the reciprocals of the old and the new ratio, is positive, and equals `1/new` at the last frame -/
theorem fixedOut_spacing_between_reciprocals {c : ℕ} (r0 r1 : ℚ) (hr0 : 0 < r0) (hr1 : 0 < r1) (hc : 0 < c) {j : ℕ}
    (h1 : 1 ≤ j) (hj : j ≤ c) :
    let inc := (1 / r1 - 1 / r0) / c
    min (1 / r0) (1 / r1) ≤ FixedOut.step inc (1 / r0) j ∧ FixedOut.step inc (1 / r0) j ≤ max (1 / r0) (1 / r1) ∧
      0 < FixedOut.step inc (1 / r0) j ∧ FixedOut.step inc (1 / r0) c = 1 / r1 :=
  FixedOut.spacing r0 r1 hr0 hr1 hc h1 hj

/-- a ramp moves the spacing monotonically from old towards new -/
theorem fixedOut_ramp_monotone {c : ℕ} {t0 t1 : ℚ} (hc : 0 < c) {j k : ℕ} (hjk : j ≤ k) :
    (t0 ≤ t1 → FixedOut.step ((t1 - t0) / c) t0 j ≤ FixedOut.step ((t1 - t0) / c) t0 k) ∧
    (t1 ≤ t0 → FixedOut.step ((t1 - t0) / c) t0 k ≤ FixedOut.step ((t1 - t0) / c) t0 j) :=
  ⟨fun h => FixedOut.step_mono_of_le hc h hjk, fun h => FixedOut.step_anti_of_ge hc h hjk⟩

/-- strictly increasing instants -/
theorem fixedOut_strictly_increasing {c : ℕ} {t0 t1 : ℚ} (hc : 0 < c) (h0 : 0 < t0) (h1 : 0 < t1) (idx : ℚ) :
    (stepsOut ((t1 - t0) / c) c t0 idx).Pairwise (· < ·) :=
  FixedOut.stepsOut_pairwise_lt hc h0 h1 idx

/-- after any successful call the current ratio IS the target: the chunk after a ramp runs entirely at `1/new` -/
theorem fixedOut_after_call_ratio_is_target {s s' : AState ℚ ℚ} {a : CallArgs ℚ} {out : CallOut ℚ}
    (hk : s.kind.isFixedIn = false) (h : s.process a = (s', .ok out)) (c j : ℕ) :
    s'.ratio = s.target ∧ s'.target = s.target ∧
    FixedOut.step ((1 / s'.target - 1 / s'.ratio) / c) (1 / s'.ratio) j = 1 / s.target := by
  obtain ⟨-, h1, h2, -⟩ := FixedOut.process_ok_state hk h
  refine ⟨h1, h2, ?_⟩
  rw [h1, h2]; exact FixedOut.step_const _ c j

/-- a non-ramped change takes effect from the first frame of the next chunk: the setter stores `ratio = target = new`,
so every step of the next call is `1/new` -/
theorem stepped_change_applies_at_once {ρ σ : Type} [RNum ρ] [SNum ρ σ] (s : AState ρ σ) (r : ρ)
    (h : ratioInRange r s.orig s.maxRel = true) :
    (s.setRatio r false).1.ratio = r ∧ (s.setRatio r false).1.target = r := by
  have := C12.setRatio_accepted s r false h
  exact ⟨by simpa using this.2.1, this.1⟩

/-- … while a ramped change keeps the current ratio and only moves the target -/
theorem ramped_change_keeps_current {ρ σ : Type} [RNum ρ] [SNum ρ σ] (s : AState ρ σ) (r : ρ)
    (h : ratioInRange r s.orig s.maxRel = true) :
    (s.setRatio r true).1.ratio = s.ratio ∧ (s.setRatio r true).1.target = r := by
  have := C12.setRatio_accepted s r true h
  exact ⟨by simpa using this.2.1, this.1⟩

/-- supplied data only (fixed-output sinc, no overshoot when the factor is ≥ 3 for Cubic/Quadratic, ≥ 2 Linear) -/
theorem sincOut_reads_supplied_data {s : AState ℚ ℚ} (h : FixedOut.Inv s) (hk : s.kind = .sincOut)
    (hLip : s.ip.len = s.L) (hf : FixedOut.factorNoOvershoot s.sint s.ip.nbr) {p : ℚ}
    (hp : p ∈ stepsOut ((1 / s.target - 1 / s.ratio) / s.chunk) s.chunk (1 / s.ratio) s.lastIndex) :
    readEnd s p ≤ 2 * (s.L : ℤ) + s.needed :=
  FixedOut.sincOut_not_stale h hk hLip hf hp

/-! ### fixed-input -/

/-- constant ratio: the instants of a call are `last + k/r`, `k = 1..n`: constant spacing `1/r`, strictly increasing -/
theorem fixedIn_constant_spacing {e t : ℚ} (ht : 0 < t) {fuel : ℕ} {idx : ℚ} (hf : FixedIn.cnt e t idx ≤ fuel) :
    (stepsIn 0 e fuel t idx).1 = (List.range (FixedIn.cnt e t idx)).map (fun k : ℕ => idx + ((k : ℚ) + 1) * t) :=
  FixedIn.stepsIn_positions ht hf

/-- `…_false` (finding D11): FastFixedIn, chunk 16, reachable `last_index = −22`, ramp 1/14 → 1/19: the single frame
of the call is evaluated `2513/132 ≈ 19.04` input samples after the previous one — outside `[14, 19]` -/
theorem fixedIn_ramp_spacing_false :
    (FixedIn.callIn 16 8 (1/14) (1/19) 100 (-22)).1 = [-22 + 2513/132] ∧
    max (1 / (1/14 : ℚ)) (1 / (1/19)) < 2513/132 ∧ FixedIn.Inv 8 ⌈1 / (1/14 : ℚ)⌉ (-22) := by
  refine ⟨by decide +kernel, by norm_num, ?_⟩
  have hT : ⌈1 / (1/14 : ℚ)⌉ = 14 := by decide +kernel
  rw [hT]; unfold FixedIn.Inv; norm_num

end Rubato.C06

namespace Rubato.C06
open Rubato Rubato.Gen

/-- tie G7 (loop control): the two functions of the hand model that walk the read position through a call —
`finishIn` (fixed input: `while idx < end_idx`) and `finishOut` (fixed output: `chunk_size` steps) — ARE the same functions
written with the regenerated Rust statements for `t_ratio`, `t_ratio_end`, `approximate_nbr_frames`, `t_ratio_increment`,
`end_idx` and the `last_index` carried to the next call, for every arithmetic instance (`rfl`).  The spacing / monotonicity
theorems of this file are about `stepsIn` / `stepsOut` driven by exactly these values. -/
theorem loop_control_is_the_source_text {ρ σ : Type} [RNum ρ] [SNum ρ σ] (s : AState ρ σ) (mask : List Bool) (fuel : Nat) :
    s.finishIn mask fuel = FormulaTie.finishInG s mask fuel ∧ s.finishOut mask = FormulaTie.finishOutG s mask :=
  ⟨rfl, rfl⟩

end Rubato.C06

namespace Rubato.C06
open Rubato

/-- finding D19 on the model (kernel-evaluated witness): `SincFixedOut` built around a user interpolator of ODD length 9
(ratio 1/4, chunk 16, Quadratic, 16 sub-filters): the first call is given exactly the 68 frames it asks for and reads buffer
index `2·9 + 68 + 1`, one frame beyond what was supplied (`stale = true`); with length 8 the same call stays inside -/
theorem sincOut_odd_length_reads_unsupplied_frame_false :
    OddLength.okSummary (OddLength.outcomeOf 0 OddLength.d19S0) = some (68, 16, true) ∧
    readEnd OddLength.d19S0 60 = 2 * 9 + 68 + 1 ∧
    OddLength.okSummary (OddLength.outcomeOf 0 OddLength.d19C0) = some (68, 16, false) :=
  ⟨OddLength.d19_first_call_stale, OddLength.d19_last_position.2.2, OddLength.d19_control_not_stale.1⟩

end Rubato.C06
