/-
C07 — Frame accounting: output/input frame totals track the ratio without drift.

[exact]  Asynchronous types at constant ratio `r`: with `G = total_in + last_index` (global position of the last
output), every call advances `G` by exactly (frames produced)/r and nothing else does, so after ANY number of calls,
with ANY chunk-size schedule,
    fixed-input :  0 ≤ r·total_in − total_out ≤ r·(L − L/2 + 1 + ⌈1/r⌉)
    fixed-output:  r·L/2 ≤ r·total_in − total_out < r·(L/2 + 1)
both inside the constant of the statement, r·(L + 1/r + 3) + 3.  Synchronous types (integers, exact):
    FftFixedIn   : total_in·rate_out = total_out·rate_in + saved·rate_out,  saved < fft_in
    FftFixedOut  : total_in·rate_out = (total_out + saved)·rate_in,         saved < fft_out
    FftFixedInOut: total_in·rate_out = total_out·rate_in after every call; its input size is the least
                   multiple of rate_in/gcd that is ≥ the request, and those multiples are exactly the sizes
                   with an integral partner.
Induction over the call list: no bound on the number of calls.
-/
import RubatoProofs.Async.FixedIn
import RubatoProofs.Async.FixedOut
import RubatoProofs.Async.FixedInHistory
import RubatoProofs.Fft.Control
import RubatoProofs.Lemmas.FormulaTie
import RubatoProofs.Lemmas.DivBridge
import RubatoProofs.Lemmas.StorageTie

set_option linter.unusedSectionVars false
set_option linter.unusedVariables false

namespace Rubato.C07
open Rubato Rubato.Bridge

/-! ### fixed-input (constant ratio, any chunk-size schedule) -/

/-- `FixedIn.runIn` folds `(last_index, total_in, total_out)` over a list of chunk sizes with the model's own
`stepsIn` loop; from a fresh state the deviation is a function of `last_index` only and stays in a fixed interval. -/
theorem fixedIn_no_drift (L : ℕ) (r : ℚ) (hr : 0 < r) (cs : List ℕ) :
    let res := FixedIn.runIn L r cs (-(RNum.ofNat (L / 2) : ℚ), 0, 0)
    r * res.2.1 - res.2.2 = r * (-((L / 2 : ℕ) : ℚ) - res.1) ∧
    0 ≤ r * res.2.1 - res.2.2 ∧
    r * res.2.1 - res.2.2 ≤ r * ((L : ℚ) - ((L / 2 : ℕ) : ℚ) + 1 + ⌈1 / r⌉) ∧
    res.2.1 = cs.sum :=
  FixedIn.accounting_bound hr L cs

/-- the theorem's constant is inside the constant of the property statement -/
theorem fixedIn_constant_within_statement (L : ℕ) (r : ℚ) (hr : 0 < r) :
    r * ((L : ℚ) - ((L / 2 : ℕ) : ℚ) + 1 + ⌈1 / r⌉) ≤ r * (L + 1 / r + 3) + 3 := by
  have h1 : (⌈1 / r⌉ : ℚ) < 1 / r + 1 := Int.ceil_lt_add_one _
  have h2 : (0 : ℚ) ≤ ((L / 2 : ℕ) : ℚ) := Nat.cast_nonneg _
  have h3 : r * (⌈1 / r⌉ : ℚ) ≤ r * (1 / r + 1) := by
    apply mul_le_mul_of_nonneg_left (le_of_lt h1) (le_of_lt hr)
  nlinarith [mul_nonneg (le_of_lt hr) h2]

/-! ### fixed-output (constant ratio) -/

/-- one successful call moves `total_in + last_index` by exactly the input time the produced frames span:
`last' + n_in = last + advance`, for ANY ratio/target (ramped or not). -/
theorem fixedOut_potential_step {s s' : AState ℚ ℚ} {a : CallArgs ℚ} {out : CallOut ℚ}
    (hk : s.kind.isFixedIn = false) (hc : 0 < s.chunk) (h : s.process a = (s', .ok out)) :
    s'.lastIndex + out.nIn = s.lastIndex + FixedOut.advance s.chunk (1 / s.ratio) (1 / s.target) := by
  obtain ⟨h1, -, -, -, -, -, -, -, -, -, -, -, -, hin, -⟩ := FixedOut.process_ok_state hk h
  rw [h1, hin, FixedOut.stepsOutLast_eq_advance hc]
  ring

/-- a run of processing calls, counting the frames of the successful ones -/
def runOut : AState ℚ ℚ → ℕ × ℕ → List (CallArgs ℚ) → AState ℚ ℚ × ℕ × ℕ
  | s, acc, [] => (s, acc)
  | s, acc, a :: as =>
    match s.process a with
    | (s', .ok o) => runOut s' (acc.1 + o.nIn, acc.2 + o.nOut) as
    | (s', _) => runOut s' acc as

/-- every call of the run succeeds (what C03 proves for valid arguments) -/
def AllOk : AState ℚ ℚ → List (CallArgs ℚ) → Prop
  | _, [] => True
  | s, a :: as => (∃ o, (s.process a).2 = .ok o) ∧ AllOk (s.process a).1 as

/-- invariant of a constant-ratio run: potential identity -/
theorem fixedOut_potential (r : ℚ) (hr : 0 < r) :
    ∀ (as : List (CallArgs ℚ)) (s : AState ℚ ℚ) (tin tout : ℕ),
      FixedOut.Inv s → s.ratio = r → s.target = r → AllOk s as →
      (((runOut s (tin, tout) as).2.1 : ℚ) + (runOut s (tin, tout) as).1.lastIndex - ((tin : ℚ) + s.lastIndex)
          = (((runOut s (tin, tout) as).2.2 : ℚ) - tout) / r) ∧
      FixedOut.Inv (runOut s (tin, tout) as).1 ∧ (runOut s (tin, tout) as).1.L = s.L ∧
      (as ≠ [] → FixedOut.Steady (runOut s (tin, tout) as).1) := by
  intro as
  induction as with
  | nil =>
    intro s tin tout hi h1 h2 _
    refine ⟨?_, hi, rfl, fun h => absurd rfl h⟩
    simp [runOut]
  | cons a as ih =>
    intro s tin tout hi h1 h2 hok
    obtain ⟨⟨o, ho⟩, hrest⟩ := hok
    have hp : s.process a = ((s.process a).1, .ok o) := by rw [← ho]
    obtain ⟨hi', hst⟩ := FixedOut.inv_process hi hp
    obtain ⟨-, hr', ht', hc', -, hL', -, -, -, -, -, -, -, hin, hout⟩ :=
      FixedOut.process_ok_state hi.not_fixedIn hp
    have hstep := fixedOut_potential_step hi.not_fixedIn hi.chunk_pos hp
    obtain ⟨e, hinv, hLL, hsteady⟩ :=
      ih (s.process a).1 (tin + o.nIn) (tout + o.nOut) hi' (by rw [hr', h2]) (by rw [ht', h2]) hrest
    have hrun : runOut s (tin, tout) (a :: as) = runOut (s.process a).1 (tin + o.nIn, tout + o.nOut) as := by
      simp only [runOut]; rw [hp]
    rw [hrun]
    refine ⟨?_, hinv, hLL.trans hL', fun _ => ?_⟩
    · have hadv : FixedOut.advance s.chunk (1 / s.ratio) (1 / s.target) = (s.chunk : ℚ) / r := by
        rw [h1, h2]; unfold FixedOut.advance; ring
      rw [hadv] at hstep
      push_cast at e
      have hout' : (o.nOut : ℚ) = s.chunk := by exact_mod_cast hout
      have hr0 : r ≠ 0 := ne_of_gt hr
      rw [eq_div_iff hr0] at e ⊢
      have hstep' : (s.process a).1.lastIndex * r + (o.nIn : ℚ) * r = s.lastIndex * r + s.chunk := by
        have := congrArg (· * r) hstep
        simp only [add_mul, div_mul_cancel₀ _ hr0] at this
        exact this
      linarith
    · cases as with
      | nil => simpa [runOut] using hst
      | cons b bs => exact hsteady (by simp)

/-- **fixed-output, no drift**: from a fresh resampler (even filter length), after any non-empty run of successful calls
at constant ratio, `r·total_in − total_out ∈ [r·L/2, r·(L/2+1))`. -/
theorem fixedOut_no_drift {s : AState ℚ ℚ} (hi : FixedOut.Inv s) (h0 : s.lastIndex = -((s.L / 2 : ℕ) : ℚ))
    (heven : 2 ∣ s.L) (hrt : s.ratio = s.target) (as : List (CallArgs ℚ)) (hne : as ≠ []) (hok : AllOk s as) :
    s.ratio * ((s.L / 2 : ℕ) : ℚ) ≤ s.ratio * (runOut s (0, 0) as).2.1 - (runOut s (0, 0) as).2.2 ∧
    s.ratio * (runOut s (0, 0) as).2.1 - (runOut s (0, 0) as).2.2 < s.ratio * (((s.L / 2 : ℕ) : ℚ) + 1) := by
  have hr : 0 < s.ratio := hi.ratio_pos
  obtain ⟨e, -, hLL, hst⟩ := fixedOut_potential s.ratio hr as s 0 0 hi rfl hrt.symm hok
  obtain ⟨lo, hi'⟩ := hst hne
  rw [hLL] at lo hi'
  simp only [Nat.cast_zero, zero_add, sub_zero] at e
  have hL : ((s.L / 2 : ℕ) : ℚ) * 2 = s.L := by
    obtain ⟨k, hk⟩ := heven
    have : s.L / 2 = k := by omega
    rw [this, hk]; push_cast; ring
  have hr0 : s.ratio ≠ 0 := ne_of_gt hr
  rw [eq_div_iff hr0] at e
  have key : s.ratio * ((runOut s (0, 0) as).2.1 : ℚ) - (runOut s (0, 0) as).2.2
      = s.ratio * (s.lastIndex - (runOut s (0, 0) as).1.lastIndex) := by linarith
  rw [key, h0]
  constructor
  · apply mul_le_mul_of_nonneg_left _ (le_of_lt hr); linarith
  · apply mul_lt_mul_of_pos_left _ hr; linarith

/-- the same for ANY filter length (a user-supplied interpolator may have an odd one): the read position starts at
`−(L/2)` (integer half) and ends every call in `(−L−1, −L]`, so `r·total_in − total_out ∈ [r·(L − L/2), r·(L − L/2 + 1))` -/
theorem fixedOut_no_drift_any_length {s : AState ℚ ℚ} (hi : FixedOut.Inv s) (h0 : s.lastIndex = -((s.L / 2 : ℕ) : ℚ))
    (hrt : s.ratio = s.target) (as : List (CallArgs ℚ)) (hne : as ≠ []) (hok : AllOk s as) :
    s.ratio * ((s.L : ℚ) - ((s.L / 2 : ℕ) : ℚ)) ≤ s.ratio * (runOut s (0, 0) as).2.1 - (runOut s (0, 0) as).2.2 ∧
    s.ratio * (runOut s (0, 0) as).2.1 - (runOut s (0, 0) as).2.2 < s.ratio * ((s.L : ℚ) - ((s.L / 2 : ℕ) : ℚ) + 1) := by
  have hr : 0 < s.ratio := hi.ratio_pos
  obtain ⟨e, -, hLL, hst⟩ := fixedOut_potential s.ratio hr as s 0 0 hi rfl hrt.symm hok
  obtain ⟨lo, hi'⟩ := hst hne
  rw [hLL] at lo hi'
  simp only [Nat.cast_zero, zero_add, sub_zero] at e
  have hr0 : s.ratio ≠ 0 := ne_of_gt hr
  rw [eq_div_iff hr0] at e
  have key : s.ratio * ((runOut s (0, 0) as).2.1 : ℚ) - (runOut s (0, 0) as).2.2
      = s.ratio * (s.lastIndex - (runOut s (0, 0) as).1.lastIndex) := by linarith
  rw [key, h0]
  constructor
  · apply mul_le_mul_of_nonneg_left _ (le_of_lt hr); linarith
  · apply mul_lt_mul_of_pos_left _ hr; linarith

/-- the fixed-output interval is inside the constant of the property statement -/
theorem fixedOut_constant_within_statement (L : ℕ) (r : ℚ) (hr : 0 < r) :
    r * (((L / 2 : ℕ) : ℚ) + 1) ≤ r * (L + 1 / r + 3) + 3 := by
  have h2 : ((L / 2 : ℕ) : ℚ) ≤ L := by exact_mod_cast Nat.div_le_self L 2
  have h3 : 0 < 1 / r := by positivity
  nlinarith [mul_le_mul_of_nonneg_left h2 (le_of_lt hr), mul_pos hr h3]

/-! ### synchronous resamplers (exact integers, any unit, any valid history) -/

open FftProofs in
/-- FftFixedIn: `0 ≤ total_in·rate_out − total_out·rate_in = saved·rate_out < fft_in·rate_out` (less than one block) -/
theorem fftIn_no_drift {σ υ : Type} {u : FftUnit σ υ} {z : σ} {ri ro chunk sub nch : Nat} {s : FState σ υ}
    (h : FState.init DivArith.exact u z .fftIn ri ro chunk sub nch = .ok s) (cs : List (Call σ))
    (hv : ValidHist u s cs) :
    (runCalls u s (0, 0) cs).2.1 * ro = (runCalls u s (0, 0) cs).2.2 * ri + (runCalls u s (0, 0) cs).1.saved * ro ∧
    (runCalls u s (0, 0) cs).1.saved < s.fftIn :=
  runCalls_rates_fftIn h cs hv

open FftProofs in
/-- FftFixedOut: `total_in·rate_out − total_out·rate_in = saved·rate_in`, `saved < fft_out` -/
theorem fftOut_no_drift {σ υ : Type} {u : FftUnit σ υ} {z : σ} {ri ro chunk sub nch : Nat} {s : FState σ υ}
    (h : FState.init DivArith.exact u z .fftOut ri ro chunk sub nch = .ok s) (cs : List (Call σ))
    (hv : ValidHist u s cs) :
    (runCalls u s (0, 0) cs).2.1 * ro = ((runCalls u s (0, 0) cs).2.2 + (runCalls u s (0, 0) cs).1.saved) * ri ∧
    (runCalls u s (0, 0) cs).1.saved < s.fftOut :=
  runCalls_rates_fftOut h cs hv

open FftProofs in
/-- FftFixedInOut: exactly zero after every call -/
theorem fftIo_exact {σ υ : Type} {u : FftUnit σ υ} {z : σ} {ri ro chunk sub nch : Nat} {s : FState σ υ}
    (h : FState.init DivArith.exact u z .fftIo ri ro chunk sub nch = .ok s) (cs : List (Call σ))
    (hv : ValidHist u s cs) :
    (runCalls u s (0, 0) cs).2.1 * ro = (runCalls u s (0, 0) cs).2.2 * ri :=
  runCalls_rates_fftIo h cs hv

open FftProofs in
/-- block sizes: `in·rate_out = out·rate_in`, `in` ≥ the request, `in` least among the admissible sizes, and the
admissible sizes are exactly the multiples of `rate_in / gcd` -/
theorem fftIo_block_sizes {ri ro : Nat} (hi : 0 < ri) (ho : 0 < ro) (wanted : Nat) :
    let fi := (fftSizes DivArith.exact ri ro wanted false).1
    let fo := (fftSizes DivArith.exact ri ro wanted false).2
    0 < fi ∧ 0 < fo ∧ fi * ro = fo * ri ∧ wanted ≤ fi ∧
    (∀ m, 1 ≤ m → wanted ≤ m * (ri / Nat.gcd ri ro) → fi ≤ m * (ri / Nat.gcd ri ro)) ∧
    (∀ n, (∃ o, n * ro = o * ri) ↔ (ri / Nat.gcd ri ro) ∣ n) :=
  ⟨(fftSizes_pos hi ho wanted false).1, (fftSizes_pos hi ho wanted false).2, fftSizes_ratio ri ro wanted false,
   fftSizes_wanted_le hi wanted, fun m hm hw => fftSizes_minimal hi wanted m hm hw, fun n => exact_ratio_iff hi n⟩

/-! ### non-vacuity -/
example : (FixedIn.runIn 8 (441 / 480) [1024, 1024, 17, 0, 5, 300] (-4, 0, 0)).2 = (2370, 2172) := by decide +kernel

end Rubato.C07

namespace Rubato.C07
open Rubato

/-- **fixed-input, whole `process` histories**: from an accepted constructor call, after ANY list of operations
(processing calls valid or not, set_chunk_size, reset — the totals restart at a reset), with the totals being the sums
of the counts the calls returned, `0 ≤ r·total_in − total_out ≤ r·(L − L/2 + 1 + ⌈1/r⌉) ≤ r·(L + 1/r + 3) + 3`. -/
theorem fixedIn_no_drift_process_level {kind : AKind} (hk : kind = .fastIn ∨ kind = .sincIn)
    {ratio maxRel : ℚ} {deg : Degree} {sint : SincInterp} {ip : Interp ℚ} {chunk nch : ℕ} {s0 : AState ℚ ℚ}
    (hL3 : kind = .sincIn → 3 ≤ ip.len) (hn : kind = .sincIn → 1 ≤ ip.nbr)
    (hn2 : kind = .sincIn → sint = .cubic ∨ sint = .quadratic → 2 ≤ ip.nbr)
    (hmach : outNextIn chunk ratio ratio ≤ idleFuel)
    (h0 : AState.init kind ratio maxRel deg sint ip chunk nch = .ok s0) (ops : List FixedInHistory.OpC) :
    let d := ratio * (FixedInHistory.totalIn s0 ops : ℚ) - (FixedInHistory.totalOut s0 ops : ℚ)
    0 ≤ d ∧ d ≤ ratio * ((s0.L : ℚ) - ((s0.L / 2 : ℕ) : ℚ) + 1 + (⌈1 / ratio⌉ : ℤ)) ∧
      d ≤ ratio * ((s0.L : ℚ) + 1 / ratio + 3) + 3 :=
  FixedInHistory.no_drift_init hk hL3 hn hn2 hmach h0 ops

end Rubato.C07

namespace Rubato.C07
open Rubato Rubato.Gen

/-! ### tie G7 for the synchronous types: the block sizes and frame counts of the theorems above ARE the formulas the
translator regenerates from synchro.rs in this run, read over exact arithmetic -/

/-- the `DivArith.exact` block sizes of the three FFT constructors are the regenerated `gcd` / `min_chunk` / `fft_chunks`
/ `fft_size_in` / `fft_size_out` statements of `FftFixedInOut::new`, `FftFixedIn::new` and `FftFixedOut::new` at ρ = ℚ -/
theorem fft_block_sizes_are_the_source_formulas (ri ro chunk sub : Nat) :
    fftSizes DivArith.exact ri ro chunk false =
      (let g := Formulas.fftIo_new_gcd (ρ := ℚ) ri ro
       let k := Formulas.fftIo_new_fft_chunks (ρ := ℚ) chunk (Formulas.fftIo_new_min_chunk_in (ρ := ℚ) ri g)
       (Formulas.fftIo_new_fft_size_in (ρ := ℚ) k ri g, Formulas.fftIo_new_fft_size_out (ρ := ℚ) k ro g)) ∧
    fftSizes DivArith.exact ri ro (chunk / sub) false =
      (let g := Formulas.fftIn_new_gcd (ρ := ℚ) ri ro
       let k := Formulas.fftIn_new_fft_chunks (ρ := ℚ) (Formulas.fftIn_new_wanted_subsize (ρ := ℚ) chunk sub)
                  (Formulas.fftIn_new_min_chunk_in (ρ := ℚ) ri g)
       (Formulas.fftIn_new_fft_size_in (ρ := ℚ) k ri g, Formulas.fftIn_new_fft_size_out (ρ := ℚ) k ro g)) ∧
    fftSizes DivArith.exact ri ro (chunk / sub) true =
      (let g := Formulas.fftOut_new_gcd (ρ := ℚ) ri ro
       let k := Formulas.fftOut_new_fft_chunks (ρ := ℚ) (Formulas.fftOut_new_wanted_subsize (ρ := ℚ) chunk sub)
                  (Formulas.fftOut_new_min_chunk_out (ρ := ℚ) ro g)
       (Formulas.fftOut_new_fft_size_in (ρ := ℚ) k ri g, Formulas.fftOut_new_fft_size_out (ρ := ℚ) k ro g)) := by
  rw [← DivBridge.ofNum_rat_eq_exact]
  exact ⟨FormulaTie.fftIo_sizes ℚ ri ro chunk, FormulaTie.fftIn_sizes ℚ ri ro chunk sub,
         FormulaTie.fftOut_sizes ℚ ri ro chunk sub⟩

/-- FftFixedOut's `frames_needed` (constructor, every call, reset) and FftFixedIn's per-call output demand, likewise -/
theorem fft_frame_counts_are_the_source_formulas (a fo fi saved chunkIn : Nat) :
    DivArith.exact.cdiv a fo * fi =
        Formulas.fftOut_new_frames_needed (ρ := ℚ) (Formulas.fftOut_new_chunks_needed (ρ := ℚ) a fo) fi ∧
    DivArith.exact.cdiv a fo * fi =
        Formulas.fftOut_proc_frames_needed (ρ := ℚ) (Formulas.fftOut_proc_chunks_needed (ρ := ℚ) a fo) fi ∧
    DivArith.exact.cdiv a fo * fi =
        Formulas.fftOut_reset_frames_needed (ρ := ℚ) (Formulas.fftOut_reset_chunks_needed (ρ := ℚ) a fo) fi ∧
    DivArith.exact.fdiv (saved + chunkIn) fi * fo =
      Formulas.fftIn_proc_needed_len (ρ := ℚ)
        (Formulas.fftIn_proc_nbr_chunks_ready (ρ := ℚ) (Formulas.fftIn_proc_next_saved_frames (ρ := ℚ) saved chunkIn) fi) fo := by
  rw [← DivBridge.ofNum_rat_eq_exact]
  exact ⟨(FormulaTie.fftOut_frames_needed ℚ a fo fi).1, (FormulaTie.fftOut_frames_needed ℚ a fo fi).2.1,
         (FormulaTie.fftOut_frames_needed ℚ a fo fi).2.2, FormulaTie.fftIn_ready ℚ saved chunkIn fi fo⟩

/-- … and each of those formulas reads the locals / fields the model feeds it -/
theorem fft_formulas_read_the_expected_fields_C07 :
    Formulas.fftFormulaParams.lookup "fftIo_new_fft_size_out" = some ["fft_chunks", "sample_rate_output", "gcd"] ∧
    Formulas.fftFormulaParams.lookup "fftIo_new_fft_size_in" = some ["fft_chunks", "sample_rate_input", "gcd"] ∧
    Formulas.fftFormulaParams.lookup "fftOut_new_min_chunk_out" = some ["sample_rate_output", "gcd"] ∧
    Formulas.fftFormulaParams.lookup "fftIn_new_min_chunk_in" = some ["sample_rate_input", "gcd"] := by
  rw [FormulaTie.fft_formulas_read_the_expected_fields]
  decide

/-- the gap between the code (`as f32` divisions) and `DivArith.exact` (what the accounting theorems above use): for EVERY
rounding of the quotient that is monotone, keeps the integers up to 2²⁴ and has relative error ≤ 2⁻²⁴ (the textbook facts
about round-to-nearest binary32, taken as hypotheses because no IEEE library is installed), and all sizes below 2²⁴, the
rounded quotient has the same ceiling and floor as the exact one.  So for every block and chunk size below 16 777 216 frames
the FFT bookkeeping of the code IS the exact integer bookkeeping of the theorems. -/
theorem f32_divisions_are_exact_below_2_pow_24 {rnd : ℚ → ℚ} (hr : DivBridge.F32Rounding rnd) (a b : ℕ)
    (ha : a < 2 ^ 24) (hb : 0 < b) :
    (DivBridge.ofRounding rnd).cdiv a b = DivArith.exact.cdiv a b ∧
    (DivBridge.ofRounding rnd).fdiv a b = DivArith.exact.fdiv a b :=
  DivBridge.ofRounding_eq_exact hr a b ha hb

end Rubato.C07

namespace Rubato.C07
open Rubato Rubato.Gen

/-- tie G18: the two counts every asynchronous call reports — the quantities this property adds up — are the source text:
`(chunk_size, n)` for the fixed-input types (`n` = frames the loop produced), `(needed_input_size as read before the next
request is computed, chunk_size)` for the fixed-output types; and the ratio a call leaves behind is its target. -/
theorem async_reported_counts_are_the_source_text {ρ : Type} [RNum ρ] (target : ρ) (chunk n used needed : Nat) :
    (Tail.fastIn_ret_in (ρ := ρ) chunk = chunk ∧ Tail.fastIn_ret_out (ρ := ρ) n = n ∧
     Tail.sincIn_ret_in (ρ := ρ) chunk = chunk ∧ Tail.sincIn_ret_out (ρ := ρ) n = n) ∧
    (Tail.fastOut_ret_in (ρ := ρ) used = used ∧ Tail.fastOut_ret_out (ρ := ρ) chunk = chunk ∧
     Tail.fastOut_used (ρ := ρ) needed = needed ∧
     Tail.sincOut_ret_in (ρ := ρ) used = used ∧ Tail.sincOut_ret_out (ρ := ρ) chunk = chunk ∧
     Tail.sincOut_used (ρ := ρ) needed = needed) ∧
    (Tail.fastIn_ratio_after target = target ∧ Tail.fastOut_ratio_after target = target ∧
     Tail.sincIn_ratio_after target = target ∧ Tail.sincOut_ratio_after target = target) ∧
    Tail.tailParams.lookup "fastOut_used" = some ["needed_input_size"] ∧
    Tail.tailParams.lookup "sincOut_used" = some ["needed_input_size"] ∧
    Tail.tailParams.lookup "sincOut_ret_in" = some ["input_frames_used"] :=
  ⟨⟨rfl, rfl, rfl, rfl⟩, ⟨rfl, rfl, rfl, rfl, rfl, rfl⟩, ⟨rfl, rfl, rfl, rfl⟩, by decide, by decide, by decide⟩

end Rubato.C07
