/-
C18 — Resamplers are self-contained and deterministic across instances and threads.

Model level, [law-free]: an instance is a state machine `step : S → Op → S × Obs` — a FUNCTION, so
outputs are determined by the constructor arguments and the call history — and a system of instances
driven by an arbitrary interleaving (any schedule, any assignment of calls to threads, instances
migrating between threads at call boundaries) is the product machine: the projection of any
interleaved run on instance `i` is `i`'s solo run.  This is "no shared mutable state" at model level;
that the Rust types really have none (process-wide FFT planner caches, CPU-feature detection) is what
the thread stress of the correspondence check exercises — no theorem can exhibit a data race.
-/
import RubatoProofs.Lemmas.Shape
import RubatoModel.Fft
import RubatoModel.Generated
import RubatoProofs.Fft.Storage

set_option linter.unusedSectionVars false
set_option linter.unusedVariables false

namespace Rubato.C18
open Rubato

variable {S Op Obs : Type}

/-- solo run: the list of observations of one instance -/
def solo (step : S → Op → S × Obs) : S → List Op → S × List Obs
  | s, [] => (s, [])
  | s, op :: ops =>
    let r := step s op
    let rest := solo step r.1 ops
    (rest.1, r.2 :: rest.2)

/-- a system of instances indexed by `Nat`; a schedule is a list of `(instance, op)`;
the `thread` that executes the call is irrelevant to the model and therefore not even a parameter of `step`. -/
def runSystem (step : S → Op → S × Obs) : (Nat → S) → List (Nat × Op) → (Nat → S) × List (Nat × Obs)
  | sys, [] => (sys, [])
  | sys, (i, op) :: rest =>
    let r := step (sys i) op
    let sys' := fun j => if j = i then r.1 else sys j
    let out := runSystem step sys' rest
    (out.1, (i, r.2) :: out.2)

/-- the calls / observations of instance `i` in a schedule / trace -/
def proj {α : Type} (i : Nat) (l : List (Nat × α)) : List α := (l.filter (fun p => p.1 == i)).map (·.2)

/-- **product-machine theorem**: for every schedule, the observations (and final state) of instance `i` in the
interleaved run are those of its solo run on its own calls. -/
theorem interleaving_invisible (step : S → Op → S × Obs) (sys : Nat → S) (sched : List (Nat × Op)) (i : Nat) :
    proj i (runSystem step sys sched).2 = (solo step (sys i) (proj i sched)).2 ∧
    (runSystem step sys sched).1 i = (solo step (sys i) (proj i sched)).1 := by
  induction sched generalizing sys with
  | nil => simp [runSystem, proj, solo]
  | cons hd rest ih =>
    obtain ⟨j, op⟩ := hd
    by_cases h : j = i
    · subst h
      have := ih (fun k => if k = j then (step (sys j) op).1 else sys k)
      simp only [runSystem, proj, List.filter_cons, beq_self_eq_true, if_true, List.map_cons, solo]
      simp only [proj, if_true] at this
      exact ⟨by rw [this.1], this.2⟩
    · have hne : (j == i) = false := by simp [h]
      have := ih (fun k => if k = j then (step (sys j) op).1 else sys k)
      have hi : (if i = j then (step (sys j) op).1 else sys i) = sys i := by
        simp [Ne.symm h]
      simp only [runSystem, proj, List.filter_cons, hne, Bool.false_eq_true, if_false]
      simp only [proj, hi] at this
      exact this

/-- two instances given the same calls produce the same observations, whatever else runs in between -/
theorem same_calls_same_results (step : S → Op → S × Obs) (sys : Nat → S) (sched : List (Nat × Op)) (i j : Nat)
    (h0 : sys i = sys j) (hc : proj i sched = proj j sched) :
    proj i (runSystem step sys sched).2 = proj j (runSystem step sys sched).2 := by
  rw [(interleaving_invisible step sys sched i).1, (interleaving_invisible step sys sched j).1, h0, hc]

/-! ### the resampler models are such machines -/

variable {ρ σ : Type} [RNum ρ] [SNum ρ σ]

/-- observable result of one operation of an asynchronous resampler -/
inductive AObs (σ : Type) where
  | call (o : Outcome (CallOut σ))
  | unit (r : Except RErr Unit)
  | none

def astep (s : AState ρ σ) : AOp ρ σ → AState ρ σ × AObs σ
  | .proc a => let r := s.process a; (r.1, .call r.2)
  | .ratio x ramp => let r := s.setRatio x ramp; (r.1, .unit r.2)
  | .rel x ramp => let r := s.setRatioRelative x ramp; (r.1, .unit r.2)
  | .chunk n => let r := s.setChunk n; (r.1, .unit r.2)
  | .reset => (s.reset, .none)

/-- instantiation: any population of asynchronous resamplers under any interleaving -/
theorem async_instances_independent (sys : Nat → AState ρ σ) (sched : List (Nat × AOp ρ σ)) (i : Nat) :
    proj i (runSystem astep sys sched).2 = (solo astep (sys i) (proj i sched)).2 :=
  (interleaving_invisible astep sys sched i).1

/-- non-vacuity: a two-instance schedule with interleaved calls -/
example : proj 1 (runSystem (fun (s : Nat) (op : Nat) => (s + op, s * op)) (fun _ => 1) [(0, 5), (1, 2), (0, 7), (1, 3)]).2
    = [1 * 2, 3 * 3] := by decide

end Rubato.C18

namespace Rubato.C18

/-- tie G9 (syntactic, regenerated on every run): the non-test code of the crate contains no construct that creates or
mutates state living outside a resampler instance — no `static mut`, `thread_local!`/`lazy_static!`, `Once*`/`Lazy*`
cells, atomics or locks, interior-mutability cells, writes to the floating-point control register, process-wide setters,
or memory handed out uninitialised (`set_len`, `MaybeUninit`, raw allocation: its contents belong to earlier allocations).
(What the dependencies realfft/rustfft and `is_x86_feature_detected!` do inside is exercised by the thread stress of the
correspondence run, not covered here.) -/
theorem no_ambient_state_constructs :
    ∀ e ∈ Rubato.Gen.Ambient.ambientStateTable, e.2 = 0 := by
  decide

end Rubato.C18

namespace Rubato.C18
open Rubato

/-- one operation of a synchronous (FFT) resampler as a state-machine step with its observation -/
def fstep {σ υ : Type} (da : DivArith) (u : FftUnit σ υ) (s : FState σ υ) :
    FftProofs.Op σ → FState σ υ × Option (Outcome (FCallOut σ))
  | .process input outLens mask => let r := s.process da u input outLens mask; (r.1, some r.2)
  | .reset zero => (s.reset da u zero, none)
  | .setRatio => (s.setRatio.1, none)
  | .setChunk n => ((s.setChunk n).1, none)

/-- instantiation: any population of FFT resamplers (sharing the per-block unit `u`, i.e. the same plans and filter) under
any interleaving: what instance `i` observes is its solo run -/
theorem fft_instances_independent {σ υ : Type} (da : DivArith) (u : FftUnit σ υ) (sys : Nat → FState σ υ)
    (sched : List (Nat × FftProofs.Op σ)) (i : Nat) :
    proj i (runSystem (fstep da u) sys sched).2 = (solo (fstep da u) (sys i) (proj i sched)).2 :=
  (interleaving_invisible (fstep da u) sys sched i).1

end Rubato.C18
