#!/bin/bash
# seed_run.sh <name> <check ids...>: apply /verif/seeded/<name>/patch.diff to /repo, run the quick checks, undo.
name=$1; shift
cd /verif
git -C /repo status --porcelain | grep -q . && { echo "/repo not clean"; exit 1; }
git -C /repo apply /verif/seeded/$name/patch.diff || { echo "patch failed"; exit 1; }
for p in "$@"; do
  for seed in 1 2; do
    out=$(./check.py $p --seed $seed 2>&1)
    echo "$out" | grep -E "^(VIOLATION|broken|$p tier)" | cut -c1-260 | sed "s/^/[$name $p seed=$seed] /"
    if echo "$out" | grep -q "^VIOLATION"; then break; fi
  done
done
git -C /repo checkout -- .
python3 translate/rs2lean.py >/dev/null
