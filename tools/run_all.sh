#!/bin/bash
# run_all.sh [seed] [tier]: every property check on the current tree, one line each
seed=${1:-1}; tier=${2:-quick}
cd /verif
for p in C01 C02 C03 C04 C05 C06 C07 C08 C09 C10 C11 C12 C13 C14 C15 C16 C17 C18; do
  out=$(./check.py $p --seed $seed --tier $tier 2>&1)
  rc=$?
  echo "$out" | grep -E "^(VIOLATION|broken|$p tier)" | cut -c1-250 | sed "s/^/[rc=$rc] /"
done
