#!/usr/bin/env python3
"""Regenerate MANIFEST.json from the table below (kept here so that the manifest stays consistent)."""
import json
import os

ROOT = os.path.dirname(os.path.dirname(os.path.abspath(__file__)))
PROPS = [json.loads(l)["id"] for l in open(os.path.join(ROOT, "properties.jsonl"))]

NOTE = ("Trusted: Lean 4.33 kernel; axioms propext/Classical.choice/Quot.sound only (audited per theorem); "
        "translate/rs2lean.py; the hand model of the state machines, tied to /repo on every run by differential "
        "execution (rv-worker vs rv-driver) over generated histories; harness and check.py. ")

CLAIMS = {
    "C08": dict(
        technique="Lean 4 proof (ring identities over Q) on kernels regenerated from the Rust source + differential correspondence",
        text=("Theorems about the Lagrange kernels generated from asynchro_fast.rs on every run: each kernel reproduces every "
              "polynomial of admissible degree at every x, passes through every node for arbitrary samples and equals the textbook "
              "Lagrange formula (uniqueness); the window table read from the ten loop bodies. Tied to the code by the translator and "
              "by bit-exact correspondence of FastFixedIn/Out outputs with the Float twin; the oracle replays polynomial signals "
              "through the real resamplers."),
        note=NOTE + "Not proved: the classical error bound for sinusoids and float rounding ('to rounding').",
        ref="3.8"),

    "C09": dict(
        technique="Lean 4 proof over an effect table regenerated from the Rust source + law-free storage-shape invariant; counting allocator as the tie",
        text=("Theorems: (1) the effect table the translator's call-graph pass emits from /repo/src on every run (functions reachable by "
              "name from each of the 11 real-time methods of each of the 7 types; allocating constructs in them, log macros removed) has no "
              "allocation site on any real-time path while the wrappers do allocate (decide over the table); (2) law-free: no operation of the "
              "asynchronous model changes the length of any internal buffer after any history. Partial: allocation itself happens in compiled "
              "code; the tie is the harness's counting global allocator, which must read (0,0,0) around every real-time call of every generated history."),
        note=NOTE + "Not modelled: allocation inside realfft/rustfft and std (observed by the counter only); the allocator.",
        ref="3.9"),
    "C10": dict(
        technique="Lean 4 proof (law-free state equality, induction over operation lists) + twin-history correspondence",
        text=("Theorem for every arithmetic instance (IEEE included): after ANY list of operations (processing calls that succeed, fail or crash, "
              "ratio changes with/without ramp, chunk-size changes, resets) reset() yields exactly the constructor's state - equality of complete "
              "model states - hence identical getters and identical futures. Asynchronous types proved; FFT types by the FFT control lemmas. "
              "Oracle: used-then-reset instance vs fresh twin on the real crate, bit for bit."),
        note=NOTE,
        ref="3.10"),
    "C12": dict(
        technique="Lean 4 proof (law-free decision skeleton + exact range equivalence over Q) + boundary oracle against exact rational decisions",
        text=("Theorems: the setter is Ok iff the range test holds, Err leaves the state untouched, Ok changes exactly target (ratio unless ramping, "
              "needed size for fixed-out); relative form is literally set_resample_ratio(orig*x); chunk-size control accepts exactly 1..=max on the "
              "sinc types, ChunkSizeNotAdjustable/SyncNotAdjustable elsewhere; in exact arithmetic the test is orig/max <= r <= orig*max with both "
              "bounds included and non-positive values rejected; session level: after ANY history of calls, setters (accepted or rejected), chunk changes "
              "and resets the ratio in force and the ramp target are accepted values, in Q inside [orig/max, orig*max]. Oracle: real setters at the bounds, their f64 neighbours, NaN, infinities, "
              "subnormals, all usize chunk sizes, decided against exact rationals (finding D9 inside a 2^-50 band)."),
        note=NOTE + "The f64 evaluation of new/orig near the bounds is not exact (known finding D9).",
        ref="3.12"),
    "C13": dict(
        technique="Lean 4 proof (law-free decision list, dead-state argument) + malformed-call twin histories",
        text=("Theorems for every arithmetic instance: validate_buffers is a decision list (first failing test in source order determines variant "
              "and fields, firstShort finds the first short active channel); a wrong-length mask is an Err; a call that returns Err leaves every "
              "field but the stored mask unchanged and the stored mask is dead state (no operation's result depends on it), so a following call "
              "behaves as if the failed call never happened; finishIn/finishOut never return Err; constructor errors exactly for non-positive "
              "ratio, max < 1, zero rates. Oracle: malformed calls of every shape injected into twin histories on the real crate."),
        note=NOTE + "Constructors accept NaN ratios (NaN <= 0 is false): outside the statement's 'non-positive', noted in DESIGN.",
        ref="3.13"),
    "C15": dict(
        technique="Lean 4 proof (lane-level kernel models = dot product over any commutative semiring) + bit-exact kernel correspondence",
        text=("Theorems over any commutative semiring on lane-level models of all seven kernels (scalar, AVX f32/f64, SSE f32/f64, NEON f32/f64): "
              "each equals the plain dot product of wave[index..index+len) with the taps, pack_sincs is a bijection of taps onto lanes, all "
              "kernels agree with the scalar one, each reads exactly the window (congruence theorem + explicit read lists). Tie: the scalar and "
              "SSE lane models reproduce the real kernels bit for bit on tables read out of the crate; AVX within the FMA tolerance; real tables "
              "identical across kernels and equal to the model's make_sincs; NaN-poisoned waves prove nothing outside the window is read."),
        note=NOTE + "NEON models are read from the source, not executed (x86-64 host). The ulp bound is measured, not proved.",
        ref="3.15"),
    "C16": dict(
        technique="Lean 4 proof (law-free, over an abstract core) + wrapper-vs-core twin histories",
        text=("Theorems over an abstract process_into_buffer: process() calls the core with output_frames_next()-sized buffers for the channels "
              "the mask keeps and returns exactly the frames written (empty vectors for masked channels); process_partial_into_buffer(Some x) is "
              "the core on x cut/padded with zeros to input_frames_next(), None is an all-zero chunk, repeated None calls are zero feeding; "
              "process_partial is process after padding. Oracle: wrapper vs core twins on all seven real types, also through dyn VecResampler."),
        note=NOTE,
        ref="3.16"),
    "C18": dict(
        technique="Lean 4 proof (product-machine theorem, induction over schedules) + 16-thread migration stress as the tie",
        text=("Theorem: for any deterministic step function and any schedule interleaving any number of instances, the observations of instance i "
              "equal its solo run (no shared state at model level); instantiated for the resampler models. Partial: a data race lives in the "
              "runtime; the tie runs every generated history alone and then all of them concurrently on 16 threads with sessions migrating "
              "between threads every 1-3 calls (constructors included) and demands identical observation streams, and the solo stream equals the model's."),
        note=NOTE + "The OS scheduler and memory model are outside the model.",
        ref="3.18"),

    "C03": dict(
        technique="Lean 4 proof (exact-arithmetic invariants, induction over arbitrary histories; negation proved by kernel-evaluated witnesses) + crash-predicting correspondence",
        text=("Theorems over Q on a model in which every slice access of the Rust code is an explicit range test. Fixed-output types: after "
              "ANY history (arbitrary calls, stepped and RAMPED ratio changes, chunk changes, resets) a call ends in Ok or in the Err of argument "
              "validation, never in a panic or out-of-range access, and with valid arguments it is Ok (true since the fix: commits to the needed-size "
              "formula). Fixed-input types: proved at constant ratio for every chunk-size schedule plus sufficient conditions for stepped changes; the "
              "full statement is FALSE on this tree (findings D3/D4/D5, D17 diverging idle loop, D18/D20 user interpolators shorter than 3/4 taps: proved by kernel-evaluated witnesses on the model; D12 proved for all positions; D21 machine-word overflow at ratios below 1e-18 is recorded, outside the model). FFT types: "
              "every valid call of every valid history is Ok. Tie: the model must predict every crash of the real crate at the same step; the harness "
              "builds rubato with debug assertions and overflow checks so an out-of-range unchecked access aborts."),
        note=NOTE + "Not covered: f64/f32 rounding of the index arithmetic (bit-exact Float twin + oracle), machine-word overflow, realfft/rustfft internals, NEON.",
        ref="3.3"),
    "C04": dict(
        technique="Lean 4 proof (exact-arithmetic invariants over histories) + getter/count correspondence at every step",
        text=("Theorems over Q: fixed-output: in every state of every history input_frames_next < input_frames_max, output_frames_next <= max, and an Ok call "
              "returns exactly (input_frames_next, output_frames_next); fixed-input: getter bounds for every in-range ratio/target pair and, from the constructor, after ANY history (ramps, chunk changes, rejected calls, resets), frames produced <= "
              "output_frames_next at constant ratio, false under ratio schedules (D5 witness); FFT: bounds and exact counts for every valid history; "
              "process() returns what the core wrote. Tie: all six getters and the returned counts are compared with the model after every operation; "
              "sentinel-filled buffers show exactly `out` frames are written."),
        note=NOTE + "The f32 evaluation of needed_input_size is exact in the theorems; the Float twin mirrors it bit for bit.",
        ref="3.4"),
    "C07": dict(
        technique="Lean 4 proof (potential-function induction over unbounded call lists; integer identities for FFT) + long-stream correspondence",
        text=("Theorems: with G = total_in + last_index every call advances G by (frames produced)/r and nothing else does, hence after any number of calls "
              "and any chunk-size schedule 0 <= r*in - out <= r*(L - L/2 + 1 + ceil(1/r)) (fixed-in) and r*L/2 <= r*in - out < r*(L/2+1) (fixed-out), both inside "
              "the statement's constant; FFT: in*rate_out = out*rate_in + saved*rate_out with saved < fft_in (FixedIn), = (out+saved)*rate_in (FixedOut), exactly "
              "zero for FixedInOut whose input size is the least admissible size >= the request, admissible sizes being the multiples of rate_in/gcd. "
              "Oracle: streams of hundreds (thorough: tens of thousands) of calls incl. 1-frame chunks on the real crate."),
        note=NOTE + "Accumulated f64 rounding of idx += t over very long streams is measured, not proved.",
        ref="3.7"),

    "C05": dict(
        technique="Lean 4 proof (refinement to a reference stream, law-free in the FFT unit; exact potential identities for the async instants) + twin-stream correspondence",
        text=("FFT types: for ANY per-block resampler, FftFixedIn, FftFixedOut and FftFixedInOut with equal block sizes emit prefixes of one reference stream "
              "(concatenation of the unit over the full blocks of the concatenated input) whatever the chunk/sub-chunk parameters and call boundaries; the saved "
              "frames are exactly the unprocessed input / undelivered output (induction over unbounded histories, single channel). Async types: evaluation "
              "instants advance by exactly frames/ratio per call for both variants and every chunk schedule; data-plane refinement in progress "
              "(RubatoProofs/Async/Stream.lean). Oracle: twin real streams (two chunk sizes, FixedIn vs FixedOut, set_chunk_size schedules, three FFT variants "
              "bit for bit) on noise/sine/index input."),
        note=NOTE + "Floating-point differences between chunkings are bounded by the oracle's tolerance, not proved; at exact ties of the sub-filter grid the sinc types may pick a neighbouring sub-filter (finding D16).",
        ref="3.5"),
    "C06": dict(
        technique="Lean 4 proof (closed forms of the stepping loops over Q; negation of the fixed-input clause by a kernel-evaluated witness) + index-signal correspondence",
        text=("Fixed-output (full statement): spacing j of a call is t0 + j*(t1-t0)/c, positive, between 1/old and 1/new, monotone towards 1/new, equal to 1/new "
              "at the last frame; after a call ratio = target so the next chunk runs at 1/new; a stepped change stores ratio = target = new and applies from the "
              "first frame; instants strictly increasing; reads inside the frames loaded (one-frame overshoot for small oversampling factors: D14). Fixed-input: "
              "constant spacing at constant ratio; the 'between the reciprocals' clause is false during ramps (D11 witness). Oracle: the index signal through "
              "Linear polynomial resamplers and through the sinc resamplers with a linear probe interpolator makes the real crate print its evaluation instants."),
        note=NOTE + "Instants are observed through f64 interpolation of the index signal (1e-7 relative tolerance).",
        ref="3.6"),
    "C14": dict(
        technique="Lean 4 proof (delay algebra over Q from the stream instants and the polyphase tap map; filter symmetry over R) + impulse-centroid oracle",
        text=("Theorems: polynomial types: true delay 4r-1, reported floor(4r), difference in (0,1] for every ratio; sinc types: the polyphase branch s applied at "
              "index i is the prototype centred L/2-1+(s+1)/f after i, hence the true delay is r(1-1/f)-1 whatever L while floor(L*r/2) is reported: the property is "
              "FALSE for the sinc types (finding D1, witness and general condition proved); FFT: the filter is symmetric about tap fft_in/2 and fft_out/2 is "
              "reported. Oracle: impulse at a random frame through all seven real types, energy centroid vs n*ratio + output_delay()."),
        note=NOTE + "That zero-padded FFT multiplication is linear convolution is assumed about realfft (measured by the oracle).",
        ref="3.14"),

    "C01": dict(
        technique="Lean 4 proof of the filter structure (polyphase map, linear phase, gain, blend) on definitions regenerated from the source; magnitudes measured by a tone-fit oracle",
        text=("Partial by design: the dB/percent figures are numerical facts about window functions and are MEASURED every run (unit sine below the passband edge "
              "through the real sinc and FFT resamplers, least-squares amplitude and residual against the thresholds of the statement). Proved: make_sincs entry [s][p] "
              "is prototype tap f*p+f-1-s over the normalising sum for every arithmetic instance; branch s is centred (s+1)/f later; the prototype is even about its "
              "centre for all six windows (linear phase, over R); taps sum to f (DC gain 1); the generated blends reproduce cubics/quadratics/lines on their nodes, the "
              "nodes are the instants (floor(t f)+j)/f and the fraction is t f - floor(t f); the table read out of the crate equals the model's table (C15 tie)."),
        note=NOTE + "Not proved: the numerical magnitudes (passband ripple, leakage), f32 precision; libm sin/cos and realfft are outside the model.",
        ref="3.1"),
    "C02": dict(
        technique="Lean 4 proof of cutoff/window facts on constants regenerated from the source; attenuation measured by a tone oracle",
        text=("Partial by design (as C01): attenuation figures are measured every run (unit sine above the stopband edge through the real down-sampling resamplers; "
              "image residual when up-sampling; FFT > 100 dB). Proved: the table is built with f_cutoff*min(1,ratio); calculate_cutoff is in (0,1) and strictly increasing "
              "in the length for all six windows, so the stopband edge is well defined and above f_cutoff; the generated window constants are the textbook "
              "Hann/Blackman/Blackman-Harris ones; the squared variants square exactly the named base window (law-free); windows are non-negative and 1 at the centre."),
        note=NOTE + "Not proved: the stopband rejection magnitudes; FFT bin truncation is inside realfft-dependent code (not modelled).",
        ref="3.2"),

    "C11": dict(
        technique="Lean 4 proof (law-free: channel projection commutes with every operation, induction over histories) + multi-instance twin correspondence",
        text=("Theorems for every arithmetic instance: one successful n-channel call projected on an active channel IS the single-channel call on that channel's data "
              "(equality of projected states and outputs), lifted to histories of any length; an inactive channel's input is never indexed (any replacement, also the empty "
              "slice, gives the same result), its output is not written and its buffer only shifts; a mask changes neither counts, control state nor the active "
              "channels' outputs; FFT adapters: per-channel step depends only on the channel's own data and the shared scalars. Oracle: n-channel instance (masked, "
              "empty inactive slices, sentinel outputs) vs unmasked instance vs n single-channel twins on the real crate, bit for bit."),
        note=NOTE,
        ref="3.11"),
    "C17": dict(
        technique="Lean 4 proof (law-free: control relation across two sample types preserved by every operation, equal observation traces) + f32/f64 twin correspondence",
        text=("Theorems for any two sample types over the same control arithmetic (instantiated at Float32/Float over IEEE Float): related states and same-shaped arguments "
              "give related states and same-shaped outcomes for process, setters, reset and constructors; the sample-free observation traces of whole histories are equal "
              "lists; FFT adapters likewise. Partial: the numeric closeness of the outputs is measured (f32 twin vs f64 twin within 64*eps32*peak), not proved."),
        note=NOTE + "Table generation in T (sin/cos in f32) and the rounding of the samples are outside the theorems.",
        ref="3.17"),
}

UNDER_CONSTRUCTION = "check under construction in this session (framework being built; see DESIGN.md section 3)"


def main():
    checks = []
    for pid in PROPS:
        if pid not in CLAIMS:
            continue
        c = CLAIMS[pid]
        checks.append({
            "property_id": pid,
            "quick_cmd": f"./check.py {pid} --tier quick",
            "thorough_cmd": f"./check.py {pid} --tier thorough",
            "evidence_file": f"/verif/evidence/{pid}.json",
            "replay_cmd_template": f"./check.py {pid} --replay {{path}}",
            "engine": "lean4-proof+correspondence",
            "level_claimed": {"category": "proof", "text": c["text"], "design_ref": "DESIGN.md " + c["ref"]},
            "level_note": c["note"],
            "technique": c["technique"],
        })
    m = {
        "version": 1,
        "setup_cmd": ("python3 translate/rs2lean.py && (cd lean && lake build RubatoModel rv-driver RubatoProofs) && "
                      "(cd harness && CARGO_NET_OFFLINE=true cargo build --release --offline)"),
        "hooks": {
            "guard": "rubato_verif",
            "enable": "none needed: the harness uses rubato's public API only (no source hooks are committed in /repo)",
            "baseline_off_cmd": "cd /repo && cargo test --workspace --no-fail-fast --offline",
            "source_commits": [],
            "add_only": True,
        },
        "engines": [{
            "name": "lean4-proof+correspondence",
            "path": "/verif/check.py",
            "serves_properties": sorted(CLAIMS),
            "kind_free_text": ("Lean 4 theorems about a formal model (lean/RubatoModel, lean/RubatoProofs); model tied to /repo by a "
                               "Rust->Lean translator for the numeric kernels (translate/rs2lean.py) and by a differential "
                               "correspondence check (harness/rv-worker vs lean rv-driver) on every run"),
        }],
        "checks": checks,
        "notes": "See DESIGN.md. known_findings.json lists genuine defects recorded rather than repaired; fix: commits are in /repo.",
        "not_applicable": [{"property_id": p, "reason": UNDER_CONSTRUCTION} for p in PROPS if p not in CLAIMS],
    }
    with open(os.path.join(ROOT, "MANIFEST.json"), "w") as f:
        json.dump(m, f, indent=1)
    print("claimed:", sorted(CLAIMS))


if __name__ == "__main__":
    main()
