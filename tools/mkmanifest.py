#!/usr/bin/env python3
"""Regenerate MANIFEST.json from the table below (kept here so that the manifest stays consistent)."""
import json
import os

ROOT = os.path.dirname(os.path.dirname(os.path.abspath(__file__)))
PROPS = [json.loads(l)["id"] for l in open(os.path.join(ROOT, "properties.jsonl"))]

NOTE = ("Trusted: Lean 4.33 kernel; axioms propext/Classical.choice/Quot.sound only (audited per theorem); "
        "translate/rs2lean.py; the hand model of the state machines, tied to /repo on every run by differential "
        "execution (rv-worker vs rv-driver) over generated histories; harness and check.py. ")

CLAIMS = {
    "C08": dict(
        technique="Lean 4 proof (ring identities over Q) on kernels regenerated from the Rust source + differential correspondence",
        text=("Theorems about the Lagrange kernels generated from asynchro_fast.rs on every run: each kernel reproduces every "
              "polynomial of admissible degree at every x, passes through every node for arbitrary samples and equals the textbook "
              "Lagrange formula (uniqueness); the window table read from the ten loop bodies. Tied to the code by the translator and "
              "by bit-exact correspondence of FastFixedIn/Out outputs with the Float twin; the oracle replays polynomial signals "
              "through the real resamplers."),
        note=NOTE + "Not proved: the classical error bound for sinusoids and float rounding ('to rounding').",
        ref="3.8"),
}

UNDER_CONSTRUCTION = "check under construction in this session (framework being built; see DESIGN.md section 3)"


def main():
    checks = []
    for pid in PROPS:
        if pid not in CLAIMS:
            continue
        c = CLAIMS[pid]
        checks.append({
            "property_id": pid,
            "quick_cmd": f"./check.py {pid} --tier quick",
            "thorough_cmd": f"./check.py {pid} --tier thorough",
            "evidence_file": f"/verif/evidence/{pid}.json",
            "replay_cmd_template": f"./check.py {pid} --replay {{path}}",
            "engine": "lean4-proof+correspondence",
            "level_claimed": {"category": "proof", "text": c["text"], "design_ref": "DESIGN.md " + c["ref"]},
            "level_note": c["note"],
            "technique": c["technique"],
        })
    m = {
        "version": 1,
        "setup_cmd": ("python3 translate/rs2lean.py && (cd lean && lake build RubatoModel rv-driver RubatoProofs) && "
                      "(cd harness && CARGO_NET_OFFLINE=true cargo build --release --offline)"),
        "hooks": {
            "guard": "rubato_verif",
            "enable": "none needed: the harness uses rubato's public API only (no source hooks are committed in /repo)",
            "baseline_off_cmd": "cd /repo && cargo test --workspace --no-fail-fast --offline",
            "source_commits": [],
            "add_only": True,
        },
        "engines": [{
            "name": "lean4-proof+correspondence",
            "path": "/verif/check.py",
            "serves_properties": sorted(CLAIMS),
            "kind_free_text": ("Lean 4 theorems about a formal model (lean/RubatoModel, lean/RubatoProofs); model tied to /repo by a "
                               "Rust->Lean translator for the numeric kernels (translate/rs2lean.py) and by a differential "
                               "correspondence check (harness/rv-worker vs lean rv-driver) on every run"),
        }],
        "checks": checks,
        "notes": "See DESIGN.md. known_findings.json lists genuine defects recorded rather than repaired; fix: commits are in /repo.",
        "not_applicable": [{"property_id": p, "reason": UNDER_CONSTRUCTION} for p in PROPS if p not in CLAIMS],
    }
    with open(os.path.join(ROOT, "MANIFEST.json"), "w") as f:
        json.dump(m, f, indent=1)
    print("claimed:", sorted(CLAIMS))


if __name__ == "__main__":
    main()
