#!/bin/bash
# seed_debug.sh <name> <check id> [seed]: apply a stored seeded change, run one check with full output to /tmp/seed_debug.out, undo.
name=$1; p=$2; seed=${3:-1}
cd /verif
git -C /repo status --porcelain | grep -q . && { echo "/repo not clean"; exit 1; }
git -C /repo apply /verif/seeded/$name/patch.diff || { echo "patch failed"; exit 1; }
RV_KEEP_DISAGREEMENTS=1 ./check.py $p --seed $seed > /tmp/seed_debug.out 2>&1
git -C /repo checkout -- .
python3 translate/rs2lean.py >/dev/null
tail -5 /tmp/seed_debug.out | cut -c1-300
