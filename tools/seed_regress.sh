#!/bin/bash
# seed_regress.sh: every stored seeded change against the check of the property it breaks (seed 1, then 2); one line each.
cd /verif
git -C /repo status --porcelain | grep -q . && { echo "/repo not clean"; exit 1; }
for d in seeded/*/; do
  id=$(basename $d)
  [ -f $d/meta.json ] || continue
  pid=$(python3 -c "import json;print(json.load(open('$d/meta.json'))['breaks_property'])")
  git -C /repo apply /verif/$d/patch.diff || { echo "$id: patch failed"; continue; }
  res="MISSED"
  for seed in 1 2; do
    out=$(./check.py $pid --seed $seed 2>&1)
    if echo "$out" | grep -q "^VIOLATION.*no-failing-input-found"; then res="broken-only(seed $seed)"; 
    elif echo "$out" | grep -q "^VIOLATION"; then res="concrete(seed $seed)"; break; fi
  done
  git -C /repo checkout -- .
  echo "$id $pid $res"
done
python3 translate/rs2lean.py >/dev/null
echo REGRESS-DONE
