#!/bin/bash
# seed_verify.sh <name> <worktree>: confirm a seeded change (existing suite passes with it, demo fails with it and passes without)
# and store it under /verif/seeded/<name>/
set -u
name=$1; wt=$2
out=/verif/seeded/$name
mkdir -p $out
cp $wt/_mutation/patch.diff $out/patch.diff
cp $wt/_mutation/demo.rs $out/demo.rs
cp $wt/_mutation/notes.md $out/notes.md 2>/dev/null
cd $wt
export CARGO_NET_OFFLINE=true
demo=$(ls tests/ | grep -i demo | head -1)
demoname=${demo%.rs}
git checkout -q -- src
git apply $out/patch.diff || { echo "patch does not apply"; exit 1; }
mv tests/$demo /tmp/$demo.$$
suite=$(cargo test --offline 2>&1 | grep -E "^test result" | tr '\n' ' ')
mv /tmp/$demo.$$ tests/$demo
with=$(cargo test --offline --test $demoname 2>&1 | grep -E "^test result" | tr '\n' ' ')
git checkout -q -- src
without=$(cargo test --offline --test $demoname 2>&1 | grep -E "^test result" | tr '\n' ' ')
git apply $out/patch.diff
echo "suite_with_change: $suite"
echo "demo_with_change: $with"
echo "demo_without_change: $without"
python3 - "$name" "$suite" "$with" "$without" <<'PY'
import json,sys
name,suite,w,wo=sys.argv[1:5]
p=f"/verif/seeded/{name}/verify.json"
json.dump({"suite_with_change":suite,"demo_with_change":w,"demo_without_change":wo},open(p,"w"),indent=1)
PY
