#!/bin/bash
# refactor_test.sh <dir with R*.diff>: behaviour-preserving refactorings applied to /repo one at a time, every quick check run,
# one line per check that does not exit 0 (expected: only `no-failing-input-found` reports, never a concrete replay)
cd /verif
git -C /repo status --porcelain | grep -q . && { echo "/repo not clean"; exit 1; }
for f in $1/R*.diff; do
  id=$(basename $f .diff)
  git -C /repo apply $f || { echo "$id: patch failed"; continue; }
  (cd /repo && CARGO_NET_OFFLINE=true cargo test --offline 2>&1 | grep -E "^test result" | tr '\n' ' ' | sed "s/^/[$id suite] /"; echo)
  for p in C01 C02 C03 C04 C05 C06 C07 C08 C09 C10 C11 C12 C13 C14 C15 C16 C17 C18; do
    out=$(./check.py $p --seed 1 2>&1); rc=$?
    if [ $rc -ne 0 ]; then echo "$out" | grep -E "^(VIOLATION|broken)" | cut -c1-200 | sed "s/^/[$id $p] /"; fi
  done
  git -C /repo checkout -- .
  (cd /repo && git clean -fdq target 2>/dev/null)
  echo "$id done"
done
python3 translate/rs2lean.py >/dev/null
echo REFACTOR-DONE
