"""Run operation histories through the real crate (rv-worker) and the Lean model (rv-driver), compare."""
import concurrent.futures
import os
import struct
import subprocess

from . import build


def hx(x):
    return "%016x" % struct.unpack("<Q", struct.pack("<d", float(x)))[0]


def hx32(x):
    return "%08x" % struct.unpack("<I", struct.pack("<f", float(x)))[0]


def unhx(s):
    return struct.unpack("<d", struct.pack("<Q", int(s, 16)))[0]


def unhx32(s):
    return struct.unpack("<f", struct.pack("<I", int(s, 16)))[0]


class History:
    """ops: list of op lines (without the leading `hist`); meta: free-form dict used by oracles."""

    def __init__(self, ops, meta=None):
        self.ops = list(ops)
        self.meta = dict(meta or {})
        self.real = []
        self.model = []

    def text(self, hid=0):
        return "hist %d\n" % hid + "\n".join(self.ops) + "\n"


def _run_worker_once(text):
    """returns (list of (op, obs or None), aborted:boolean, stderr tail)"""
    p = subprocess.run([build.WORKER, "run"], input=text, stdout=subprocess.PIPE, stderr=subprocess.PIPE,
                       text=True, timeout=3600)
    out = p.stdout.splitlines()
    pairs = []
    i = 0
    while i < len(out):
        if out[i].startswith("> "):
            op = out[i][2:]
            if i + 1 < len(out) and not out[i + 1].startswith("> "):
                pairs.append((op, out[i + 1]))
                i += 2
            else:
                pairs.append((op, None))
                i += 1
        else:
            i += 1
    return pairs, p.returncode != 0, p.stderr[-300:]


def run_real(histories):
    """Fill h.real for every history; an abort kills the worker, which is restarted on the rest."""
    idx = 0
    n = len(histories)
    for h in histories:
        h.real = []
    while idx < n:
        text = "".join(h.text(k) for k, h in enumerate(histories[idx:], idx))
        pairs, died, err = _run_worker_once(text)
        # distribute
        cur = idx - 1
        for op, obs in pairs:
            if op.startswith("hist "):
                cur = int(op.split()[1])
                continue
            histories[cur].real.append(obs if obs is not None else "abort")
        if not died:
            break
        # the worker died inside history `cur`: mark the rest of it skipped, continue after it
        h = histories[cur]
        if len(h.real) == 0 or h.real[-1] not in ("abort", "hang"):
            # died without having echoed the op (should not happen) or after printing: mark abort
            h.real.append("abort")
        while len(h.real) < len(h.ops):
            h.real.append("skip")
        h.real = h.real[:len(h.ops)]
        h.meta["worker_stderr"] = err
        idx = cur + 1
    for h in histories:
        while len(h.real) < len(h.ops):
            h.real.append("missing")


def run_model(histories):
    text = "".join(h.text(k) for k, h in enumerate(histories))
    def big_stack():
        # the model's stepping loop is a structural recursion; a call in which NO channel is active and the position
        # diverges (ramp with a negative step, finding D4) runs it to its idle fuel of 10^6 steps
        import resource
        soft, hard = resource.getrlimit(resource.RLIMIT_STACK)
        want = 4 << 30
        if hard != resource.RLIM_INFINITY:
            want = min(want, hard)
        resource.setrlimit(resource.RLIMIT_STACK, (want, hard))
    p = subprocess.run([build.DRIVER], input=text, stdout=subprocess.PIPE, stderr=subprocess.PIPE, text=True, preexec_fn=big_stack,
                       timeout=3600)
    out = p.stdout.splitlines()
    pos = 0
    for h in histories:
        h.model = []
        if pos < len(out) and out[pos] == "hist":
            pos += 1
        for _ in h.ops:
            h.model.append(out[pos] if pos < len(out) else "missing")
            pos += 1
    return p.returncode


def run_both(histories, jobs=8):
    """Shard the histories over `jobs` workers."""
    if not histories:
        return
    jobs = max(1, min(jobs, len(histories)))
    # many more shards than workers, heaviest first: one very long history must not serialise a whole sixteenth of the run
    nsh = max(1, min(len(histories), 8 * jobs))
    order = sorted(range(len(histories)), key=lambda i: -len(histories[i].ops))
    shards = [[histories[i] for i in order[k::nsh]] for k in range(nsh)]
    with concurrent.futures.ThreadPoolExecutor(max_workers=2 * jobs) as ex:
        futs = []
        for s in shards:
            futs.append(ex.submit(run_real, s))
            futs.append(ex.submit(run_model, s))
        for f in futs:
            f.result()


def fields(obs):
    """status, getters(list of int)|None, alloc, untouched, data(list), stale"""
    parts = obs.split(" | ")
    d = {"status": parts[0], "g": None, "a": None, "u": None, "d": None, "s": None, "site": None}
    if parts[0] == "hang":
        # the call did not return (worker watchdog): a failure to complete; compared with the model's crash predictions as a
        # panic (the model's only diverging case is the idle stepping loop, "position diverges")
        d["site"] = "hang"
        d["status"] = "panic"
    elif parts[0].split(" ")[0] in ("panic", "abort"):
        d["site"] = parts[0]
        d["status"] = parts[0].split(" ")[0]
    for p in parts[1:]:
        if p.startswith("g "):
            d["g"] = [int(x) for x in p.split()[1:]]
        elif p.startswith("a"):
            d["a"] = p[1:]
        elif p.startswith("u"):
            d["u"] = p[1:]
        elif p.startswith("d"):
            d["d"] = p.split()[1:]
        elif p.startswith("s"):
            d["s"] = p[1:]
    return d


def data_mode(new_line):
    """How the data section of a slot created by `new_line` is compared: exact | tol | none."""
    t = new_line.split()
    kind = t[3]
    if kind in ("fastin", "fastout"):
        return "exact"
    if kind in ("sincin", "sincout"):
        return "exact" if t[-1] in ("probe", "lprobe", "rprobe") else "tol"
    if kind in ("fftin", "fftout", "fftio"):
        # naive-DFT unit model for small blocks (the driver prints `d ?` when the blocks are too large to model)
        return "ffttol"
    return "none"


def decode_dump(tok, ty):
    if not tok.startswith("v"):
        return None
    body = tok[1:]
    if not body:
        return []
    ints = [int(x, 16) for x in body.split(",")]
    n = len(ints)
    if ty == "f32":
        return list(struct.unpack("<%df" % n, struct.pack("<%dI" % n, *ints)))
    return list(struct.unpack("<%dd" % n, struct.pack("<%dQ" % n, *ints)))


def compare(h):
    """First disagreement between the real code and the model on history h, or None.

    Returned as dict(step, op, real, model, what)."""
    modes = {}
    types = {}
    peaks = {}
    consumed = {}
    for k, op in enumerate(h.ops):
        t = op.split()
        slot = t[0]
        if len(t) > 1 and t[1] == "new":
            modes[slot] = data_mode(op)
            types[slot] = t[2]
            peaks.pop(slot, None)
        r, m = h.real[k], h.model[k]
        if r in ("skip",) and m in ("skip",):
            continue
        fr, fm = fields(r), fields(m)
        if len(t) > 1 and t[1] in ("proc", "part") and fr["status"].startswith("ok "):
            a_ = fr["status"].split()
            if len(a_) > 1 and a_[1].isdigit():
                consumed[slot] = consumed.get(slot, 0) + int(a_[1])
        if len(t) > 1 and t[1] in ("new", "reset"):
            consumed[slot] = 0
        if fr["status"] != fm["status"]:
            return {"step": k, "op": op, "real": r, "model": m, "what": "status"}
        if fr["g"] != fm["g"]:
            return {"step": k, "op": op, "real": r, "model": m, "what": "getters"}
        mode = modes.get(slot, "none")
        if fr["d"] is not None and fm["d"] is not None and mode != "none":
            if mode == "exact":
                if fr["d"] != fm["d"]:
                    return {"step": k, "op": op, "real": r[:400], "model": m[:400], "what": "data"}
            elif mode in ("tol", "ffttol") and " dump" in (" " + op) and fm["d"] != ["?"]:
                ty = types.get(slot, "f64")
                tol = 2e-4 if ty == "f32" else 1e-9
                if mode == "ffttol":
                    tol = 2e-3 if ty == "f32" else 1e-9
                for cr, cm in zip(fr["d"], fm["d"]):
                    if (cr == "-") != (cm == "-"):
                        return {"step": k, "op": op, "real": r[:400], "model": m[:400], "what": "data-shape"}
                    if cr == "-":
                        continue
                    vr, vm = decode_dump(cr, ty), decode_dump(cm, ty)
                    if vr is None or vm is None or len(vr) != len(vm):
                        return {"step": k, "op": op, "real": r[:400], "model": m[:400], "what": "data-len"}
                    # rounding errors of a filter scale with the magnitude of what went THROUGH it, not only with the frames of
                    # this block: use the largest magnitude this slot has produced so far (signals with a large dynamic range)
                    peak = max([1.0, peaks.get(slot, 0.0)] + [abs(x) for x in vm if x == x])
                    peaks[slot] = peak
                    if mode == "ffttol":
                        # ... and the FFT blocks already hold input the output has not reached yet (delay, saved frames): a
                        # polynomial test signal p<deg>,<seed> (coefficients in -3..3, argument frame/64) grows like u^deg
                        sgs = [w for w in op.split()[3:7] if w[:1] == "p" and "," in w]
                        if sgs and fr["status"].startswith("ok"):
                            deg = int(sgs[0][1:].split(",")[0])
                            st_ = fr["status"].split()
                            nin = int(st_[1]) if len(st_) > 2 and st_[1].isdigit() else 0
                            u = (consumed.get(slot, 0) + nin + 4096) / 64.0
                            peak = max(peak, 3.0 * (deg + 1) * max(1.0, u) ** deg)
                    for j, (a, b) in enumerate(zip(vr, vm)):
                        if not abs(a - b) <= tol * peak:
                            return {"step": k, "op": op, "real": f"frame {j}: {a!r}", "model": f"frame {j}: {b!r}",
                                    "what": "data-tol"}
    return None
