"""Per-property scenarios and oracles (evaluated on the *real* observations).

The oracle is the failing-input search of DESIGN.md 2.4 step 4; the deciding artefact of every
property is the Lean theorem list of lean/RubatoProofs/Props/<id>.lean, tied to /repo by the translator
and by the correspondence check (`proto.compare`) that runs on every history generated here.
"""
import collections
import json
import math
import os
import random

from . import build, gen, proto
from .proto import History, hx, hx32, unhx, fields

ROOT = build.ROOT
REGISTRY = {}


def register(cls):
    REGISTRY[cls.pid] = cls
    return cls


# ------------------------------------------------------------------------------------------ walking a history
class SlotInfo:
    def __init__(self, new_line):
        t = new_line.split()
        self.ty = t[2]
        self.kind = t[3]
        self.p = t[4:]
        if self.p and self.p[-1] == "ctl":
            self.p = self.p[:-1]   # model-side flag (FFT data plane off), not a constructor argument
        self.g = None          # getters after the last op
        self.alive = False
        self.ratios = []       # accepted ratio values since (re)start: (value, ramp)
        self.total_in = 0
        self.total_out = 0
        self.calls = 0
        if self.kind in gen.ASYNC:
            self.orig = unhx(self.p[0])
            self.maxrel = unhx(self.p[1])
            self.chunk0 = int(self.p[3]) if self.kind.startswith("fast") else int(self.p[7])
            self.nch = int(self.p[4]) if self.kind.startswith("fast") else int(self.p[8])
            self.L = 8 if self.kind.startswith("fast") else 8 * ((int(self.p[3]) + 7) // 8)
            if self.kind.startswith("sinc") and self.p[-1] == "rprobe":
                self.L = int(self.p[3])     # raw-length probe interpolator
        else:
            self.ri, self.ro = int(self.p[0]), int(self.p[1])
            self.chunk0 = int(self.p[2])
            self.nch = int(self.p[-1])
        self.chunk = self.chunk0
        self.cur_ratio = getattr(self, "orig", None)

    def restart(self):
        self.ratios = []
        self.total_in = 0
        self.total_out = 0
        self.calls = 0
        self.chunk = self.chunk0
        self.cur_ratio = getattr(self, "orig", None)

    def calm(self):
        """calm-schedule predicate for the fixed-input types (DESIGN 3.3): every accepted ratio has the
        ceiling of 1/ratio of the original, and ramps only when at least one frame per call is produced"""
        if self.kind not in ("fastin", "sincin"):
            return True
        def ceil_inv(x):
            try:
                return math.ceil(1.0 / x)
            except (OverflowError, ZeroDivisionError, ValueError):
                return None          # subnormal / zero ratio: 1/ratio is not a finite number
        c0 = ceil_inv(self.orig)
        for r, ramp in self.ratios:
            if ceil_inv(r) != c0 or c0 is None:
                return False
            if ramp and self.chunk * min(r, self.orig) < 1.0:
                return False
        return True


def walk(h):
    """yield (k, slot, opname, tokens, real_fields, model_fields, info, g_before)"""
    slots = {}
    for k, op in enumerate(h.ops):
        t = op.split()
        slot, name = t[0], t[1]
        fr = fields(h.real[k]) if k < len(h.real) else None
        fm = fields(h.model[k]) if k < len(h.model) and h.model[k] else None
        if name == "new":
            info = SlotInfo(op)
            slots[slot] = info
            info.alive = fr is not None and fr["status"] == "ok"
            info.g = fr["g"] if fr else None
            yield k, slot, name, t, fr, fm, info, None
            continue
        info = slots.get(slot)
        gb = info.g if info else None
        yield k, slot, name, t, fr, fm, info, gb
        if info is None or fr is None:
            continue
        st = fr["status"]
        if fr["g"] is not None:
            info.g = fr["g"]
        if name in ("ratio", "rel") and st == "ok" and info.kind in gen.ASYNC:
            v = unhx(t[2])
            r = v if name == "ratio" else info.orig * v
            info.ratios.append((r, t[3] == "1"))
            info.cur_ratio = r
        elif name == "chunk" and st == "ok":
            info.chunk = int(t[2])
        elif name == "reset":
            info.restart()
        elif name in ("proc", "part") and st.startswith("ok"):
            a = st.split()
            info.total_in += int(a[1])
            info.total_out += int(a[2])
            info.calls += 1


def viol(pid, h, k, info, clause, detail, model_same=None):
    return {"property": pid, "kind": info.kind if info else "?", "ty": info.ty if info else "?",
            "clause": clause, "calm": info.calm() if info else True, "step": k, "op": h.ops[k],
            "detail": detail, "real": h.real[k][:300], "model": (h.model[k][:300] if h.model else None),
            "model_predicts": model_same, "ops": list(h.ops), "meta": h.meta}


def match_known(known, pid, v):
    """A violation is a listed finding only if property, resampler kind, failing clause and witness class all
    match and the frozen model predicts the same failure at the same step."""
    for f in known.get("findings", []):
        if f.get("status") != "open" or pid not in f.get("properties", []):
            continue
        if v.get("kind") not in f.get("kinds", []):
            continue
        if v.get("clause") not in f.get("clauses", []):
            continue
        cls = f.get("witness_class")
        if cls == "fixed-in:non-calm-ratio-schedule":
            if v.get("calm", True):
                continue
        elif cls == "sinc:cubic-or-quadratic-with-oversampling-1":
            if not v.get("meta", {}).get("osf1_poly"):
                continue
        elif cls == "any":
            pass
        elif cls == "sinc:position-tie-or-any":
            if v.get("clause") != "streams-differ-at-position-tie" and v.get("class") != "sinc:position-tie":
                continue
        else:
            if v.get("class") != cls:
                continue
        if f.get("needs_model_prediction", True) and v.get("model_predicts") is False:
            continue
        return f["id"]
    return None


# ------------------------------------------------------------------------------------------ base class
class Prop:
    pid = "C00"
    rule = ""
    assumptions = []
    checker_modules = ["RubatoModel.Async", "RubatoModel.Fft", "RubatoModel.Generated"]
    n_quick = 160
    n_thorough = 4000

    def __init__(self, tier="quick", seed=1, jobs=16):
        self.tier = tier
        self.seed = seed
        self.jobs = jobs
        self.n = self.n_quick if tier == "quick" else self.n_thorough

    # -- to override
    def scenarios(self, rng):
        return []

    def oracle(self, h):
        return []

    def extra(self, rng, cov):
        return [], []

    def distinct_key(self, h):
        return (h.meta.get("cfg"), tuple(h.meta.get("feats", [])))

    def nontrivial(self, h):
        return True

    def corpus(self):
        d = os.path.join(ROOT, "corpus")
        out = []
        if os.path.isdir(d):
            for f in sorted(os.listdir(d)):
                if f.startswith(self.pid + "-") and f.endswith(".json"):
                    j = json.load(open(os.path.join(d, f)))
                    m = dict(j.get("meta", {}))
                    m["corpus"] = f
                    out.append(History(j["ops"], m))
        return out

    def run(self, rng, histories=None, have_model=True):
        hs = histories if histories is not None else (self.corpus() + self.scenarios(rng))
        if have_model:
            proto.run_both(hs, jobs=self.jobs)
        else:
            shards = [hs[i::self.jobs] for i in range(self.jobs)]
            import concurrent.futures
            with concurrent.futures.ThreadPoolExecutor(max_workers=self.jobs) as ex:
                list(ex.map(proto.run_real, [s for s in shards if s]))
            for h in hs:
                h.model = []
        disagreements = []
        violations = []
        dist = collections.Counter()
        distinct = set()
        nops = 0
        for h in hs:
            nops += len(h.ops)
            if have_model:
                d = proto.compare(h)
                if d:
                    d["ops"] = h.ops[:d["step"] + 1]
                    d["cfg"] = h.meta.get("cfg")
                    disagreements.append(d)
            for v in self.oracle(h):
                violations.append(v)
            dist["kind:" + str(h.meta.get("kind"))] += 1
            dist["ty:" + str(h.meta.get("ty"))] += 1
            for f in h.meta.get("feats", []):
                dist["feat:" + f] += 1
            for r in h.real:
                dist["status:" + r.split(" | ")[0].split(" ")[0]] += 1
                if r.startswith("err"):
                    dist["err:" + r.split()[1]] += 1
            if self.nontrivial(h):
                distinct.add(self.distinct_key(h))
        cov = {"evaluations": nops, "traces_validated_against_impl": len(hs) if have_model else 0,
               "distinct": distinct, "dist": dict(dist),
               "samples": [{"ops": h.ops[:12], "real": [r[:120] for r in h.real[:12]]} for h in hs[:3]]}
        notes = []
        ev, en = self.extra(rng, cov)
        violations += ev
        notes += en
        # a disagreement whose real side fails the property is a violation with a replay; otherwise it stays
        # a broken tie (reported as no-failing-input-found unless the oracle found something)
        return {"coverage": cov, "disagreements": disagreements, "violations": violations, "notes": notes}


COMMON_ASSUME = [
    "exact-arithmetic theorems are about the Rat instantiation of the model; f64/f32 rounding is watched by the "
    "bit-exact Float twin and by the oracle, not proved",
    "machine-word overflow is outside the model (sizes < 2^53); the harness builds rubato with overflow checks",
    "assurance of the hand model is bounded by the generated histories of the correspondence check",
]


# ------------------------------------------------------------------------------------------ C08
@register
class C08(Prop):
    pid = "C08"
    rule = ("theorems about the generated Lagrange kernels (all polynomials / all sample vectors); correspondence: "
            "polynomial, index and noise signals through FastFixedIn/Out, f64 and f32, bit-exact against the Float twin; "
            "distinct = (config, degree, signal kind), non-trivial = a polynomial signal of admissible degree was "
            "reproduced at >= 1 fractional position")
    assumptions = COMMON_ASSUME + ["the classical sinusoid error bound is measured (thorough), not proved"]
    n_quick = 120
    n_thorough = 3000
    MAXDEG = {0: 7, 1: 5, 2: 3, 3: 1, 4: 0}

    def scenarios(self, rng):
        hs = []
        for i in range(self.n):
            cfg = gen.gen_cfg(rng, kinds=["fastin", "fastout"], ty="f64" if i % 4 else "f32", max_chunk=300, nch=rng.choice([1, 2]))
            deg = cfg.params["deg"]
            pd = rng.randint(0, self.MAXDEG[deg])
            sig = f"p{pd},{rng.randint(0, 999)}" if rng.random() < 0.7 else rng.choice(["i", "r%d" % rng.randint(0, 999)])
            small = i % 5 == 4
            if small:
                # chunks shorter than the kernel's history with rejected calls in between: whatever a refused call touches,
                # the frames that follow must still be fitted through the right samples
                p = cfg.line.split()
                p[5] = str(rng.randint(1, 15))
                cfg.line, cfg.chunk = " ".join(p), int(p[5])
            h = gen.gen_valid_history(rng, cfg, rng.randint(4, 14) if not small else rng.randint(20, 40), ratio_changes="none",
                                      masks="none", wrappers=False, resets=False, partial=False, dump=True, sig=sig)
            if small:
                for _ in range(rng.randint(1, 3)):
                    h.ops.insert(rng.randint(2, len(h.ops)), f"0 proc - n m {sig} dump oc={cfg.nch + 1}")
                h.meta["feats"] = sorted(set(h.meta["feats"]) | {"rejected-call"})
            h.meta["sig"] = sig
            h.meta["deg"] = deg
            hs.append(h)
        # every degree on both types in f32 with LONG calls (read positions in the thousands) and full-band noise: the offset
        # handed to the kernel must keep the precision of the f64 position however far into the chunk the frame lies
        for kind in ("fastin", "fastout"):
            for deg in range(5):
                ratio = rng.choice([1.2, 48000 / 44100, 0.9, 1.37, 44100 / 48000])
                chunk = rng.choice([2048, 4096, 3000])
                sig = "r%d" % rng.randint(0, 999)
                line = f"f32 {kind} {hx(ratio)} {hx(1.0)} {deg} {chunk} 1"
                ops = [f"0 new {line}"] + [f"0 proc - n m {sig} dump"] * 3
                hs.append(History(ops, {"cfg": line, "kind": kind, "ty": "f32", "feats": ["proc", "long-calls"], "sig": sig,
                                        "deg": deg, "valid": True}))
        return hs

    def distinct_key(self, h):
        return (h.meta.get("cfg"), h.meta.get("sig", "")[:1])

    def nontrivial(self, h):
        return h.meta.get("checked_frames", 0) > 0

    def oracle(self, h):
        """polynomial input of admissible degree: every output frame whose window lies in real data equals the
        polynomial at the evaluation instant (instants taken from the model-independent recurrence in exact
        arithmetic: tau_j = -4 + j/ratio, constant ratio)."""
        out = []
        sig = h.meta.get("sig", "")
        from fractions import Fraction
        # (a) for EVERY signal: each output frame must be the unique polynomial through the 8/6/4/2 input samples nearest
        # to its instant (Nearest: the sample at or just before it), computed here independently in exact arithmetic
        first = True
        for k, slot, name, t, fr, fm, info, gb in walk(h):
            if name == "new":
                ratio_ = Fraction(info.orig)
                jj = 0
                deg_ = int(info.p[2])
                off_, width_ = {0: (3, 8), 1: (2, 6), 2: (1, 4), 3: (0, 2), 4: (0, 1)}[deg_]
                continue
            if name != "proc" or not fr["status"].startswith("ok") or not fr["d"]:
                continue
            vals = proto.decode_dump(fr["d"][0], info.ty)
            if vals is None:
                continue
            for n_, v in enumerate(vals):
                jj += 1
                if n_ >= 24 and n_ < len(vals) - 4:
                    continue          # check the frames around the chunk boundaries, where the history is stitched
                tau = Fraction(-4) + Fraction(jj) / ratio_
                fl = math.floor(tau)
                xs = [fl - off_ + m for m in range(width_)]
                ys = []
                for g in xs:
                    val = 0.0 if g < 0 else sig_value(sig, 0, g)
                    if info.ty == "f32":
                        import struct as _st
                        val = _st.unpack("<f", _st.pack("<f", val))[0]
                    ys.append(Fraction(val))
                want = ys[0] if width_ == 1 else lagrange_at([Fraction(x) for x in xs], ys, tau)
                scale = max([1.0] + [abs(float(y)) for y in ys])
                # f32: measured <= 2.4 ulp of the window's largest sample on the unchanged tree (long calls included); 32 allowed
                eps = 0.8 * 2.0 ** -23 if info.ty == "f32" else 2.0 ** -40
                # the position of frame jj is the sum of jj steps (the carry between calls keeps what has accumulated), each
                # rounded at the magnitude of the input span of one call; the value moves by at most ~4*scale per input frame
                span = max(1, (fr["g"][1] if fr["g"] else 1))
                pos_tol = 4.0 * scale * (jj + 2) * span * 2.0 ** -52
                # ties of the Nearest kernel: an instant that is (numerically) an integer may legitimately fall either way
                if width_ == 1 and abs(tau - round(tau)) < Fraction(1, 10 ** 6):
                    continue
                if os.environ.get("RV_C08_MEASURE") and info.ty == "f32":
                    C08.worst = max(getattr(C08, "worst", 0.0), float(abs(Fraction(v) - want)) / scale)
                if abs(Fraction(v) - want) > eps * 40 * scale + pos_tol:
                    out.append(viol("C08", h, k, info, "not-the-interpolant-through-the-nearest-samples",
                                    {"frame": jj, "tau": float(tau), "got": v, "want": float(want), "window": xs}))
                    return out
        if not sig.startswith("p"):
            return out
        pd, seed = sig[1:].split(",")
        pd, seed = int(pd), int(seed)
        coeffs = [poly_coeff(seed, k) for k in range(pd + 1)]
        checked = 0
        for k, slot, name, t, fr, fm, info, gb in walk(h):
            if name == "new":
                ratio = Fraction(info.orig)
                j = 0
                deg = int(info.p[2])
                lo = {0: 3, 1: 2, 2: 1, 3: 0, 4: 0}[deg]
                continue
            if name != "proc" or not fr["status"].startswith("ok"):
                continue
            vals = proto.decode_dump(fr["d"][0], info.ty) if fr["d"] else None
            if vals is None:
                continue
            for v in vals:
                j += 1
                tau = Fraction(-4) + Fraction(j) / ratio
                fl = math.floor(tau)
                if fl - lo < 0:
                    continue   # window still overlaps the zero pre-roll
                if deg == 4:
                    # Nearest: an instant that is (in exact arithmetic) an integer is a tie of a discontinuous kernel -- the
                    # f64 position may sit a rounding error below it and select the sample before (same rule as in (a))
                    if abs(tau - round(tau)) < Fraction(1, 10 ** 6):
                        continue
                    x = Fraction(fl)
                else:
                    x = tau
                u = x / 64
                exact = sum(Fraction(c) * u ** i for i, c in enumerate(coeffs))
                scale = sum(abs(Fraction(c)) * abs(u) ** i for i, c in enumerate(coeffs)) + 1
                eps = 2.0 ** -20 if info.ty == "f32" else 2.0 ** -44
                # condition of the 8-point formula: coefficients up to 6860/5040 times 8 samples
                if abs(Fraction(v) - exact) > eps * 64 * float(scale) * (1 + abs(float(x))) :
                    out.append(viol("C08", h, k, info, "polynomial-not-reproduced",
                                    {"frame": j, "tau": float(tau), "got": v, "want": float(exact), "poly_degree": pd}))
                    return out
                checked += 1
        h.meta["checked_frames"] = checked
        return out


def sig_value(sig, ch, g):
    """Python twin of harness/src/signal.rs (same float operations in the same order)"""
    M = 0xFFFFFFFFFFFFFFFF
    K1, K2 = 0x9E3779B97F4A7C15, 0xC2B2AE3D27D4EB4F
    h, t = sig[0], sig[1:]
    if h == "z":
        return 0.0
    if h == "i":
        return float(g) + 0.25 * float(ch)
    if h == "r":
        hh = splitmix64(int(t) ^ ((ch * K1) & M) ^ ((g * K2) & M))
        return float(hh >> 11) * (1.0 / 4503599627370496.0) - 1.0
    if h == "p":
        d, sd = t.split(",")
        d, sd = int(d), int(sd)
        u = float(g) * 0.015625
        acc = 0.0
        for k in range(d, -1, -1):
            acc = acc * u + float(poly_coeff(sd, k))
        return acc + float(ch)
    if h == "k":
        return 1.0 if g == int(t) else 0.0
    if h == "b":
        pd, sd = t.split(",")
        return sig_value("r" + sd, ch, g) if (g // int(pd) + ch) % 2 == 0 else 0.0
    raise ValueError(sig)


def lagrange_at(xs, ys, x):
    from fractions import Fraction
    tot = Fraction(0)
    for j, (xj, yj) in enumerate(zip(xs, ys)):
        w = Fraction(1)
        for m, xm in enumerate(xs):
            if m != j:
                w *= (x - xm) / (xj - xm)
        tot += yj * w
    return tot


def poly_coeff(seed, k):
    K1 = 0x9E3779B97F4A7C15
    return (splitmix64(seed ^ ((k * K1) & 0xFFFFFFFFFFFFFFFF)) % 7) - 3


def splitmix64(x):
    M = 0xFFFFFFFFFFFFFFFF
    z = (x + 0x9E3779B97F4A7C15) & M
    z = ((z ^ (z >> 30)) * 0xBF58476D1CE4E5B9) & M
    z = ((z ^ (z >> 27)) * 0x94D049BB133111EB) & M
    return z ^ (z >> 31)


# ------------------------------------------------------------------------------------------ helpers for twins
def retarget(op, slot):
    t = op.split(" ", 1)
    return f"{slot} {t[1]}"


def same_obs(a, b, with_alloc=False):
    """equality of two real observations (status, getters, untouched, data); allocation counts excluded"""
    fa, fb = fields(a), fields(b)
    return fa["status"] == fb["status"] and fa["g"] == fb["g"] and fa["d"] == fb["d"] and fa["u"] == fb["u"]


# ------------------------------------------------------------------------------------------ C10
@register
class C10(Prop):
    pid = "C10"
    rule = ("twin histories: slot 0 = fresh instance driven by a random valid history (ratio changes with/without ramp, "
            "pending ramps, chunk-size changes, masked calls, failed calls, partial calls) then reset(); slot 1 = new "
            "instance with the same parameters; then the same operations on both, observations compared bit for bit. "
            "distinct = (config, feature set before reset); non-trivial = the pre-reset history changed ratio, chunk size, "
            "or had a failed or masked call, and >= 1 processing call follows the reset")
    assumptions = COMMON_ASSUME
    n_quick = 140
    n_thorough = 4000

    def scenarios(self, rng):
        hs = []
        for _ in range(self.n):
            cfg = gen.gen_cfg(rng, max_chunk=400)
            pre = gen.gen_valid_history(rng, cfg, rng.randint(2, 25), ratio_changes="calm", masks="vary")
            ops = list(pre.ops)
            feats = set(pre.meta["feats"])
            # a failed call and a pending ramp right before the reset, sometimes
            if rng.random() < 0.4:
                ops.append("0 proc - n-1 n i")
                feats.add("failed")
            if cfg.nch >= 2 and rng.random() < 0.5:
                # the LAST call before the reset leaves some channels out (their stored state must be cleared too)
                m = gen.rand_mask(rng, cfg.nch, allow_all_false=False)
                while m == "-" or "0" not in m:
                    m = "".join(rng.choice("01") for _ in range(cfg.nch))
                ops.append(f"0 proc - n m r{rng.randint(0, 999)}")
                ops.append(f"0 proc {m} n m r{rng.randint(0, 999)}")
                feats.add("masked-last-call")
            if cfg.kind in gen.ASYNC and cfg.maxrel > 1.0 and rng.random() < 0.5:
                r, rel = gen.in_range_ratio(rng, cfg, calm=True)
                if rng.random() < 0.5:
                    ops.append(f"0 ratio {hx(r)} 1")
                else:
                    # step away, run, then a ramp BACK to the construction ratio is pending when reset() comes
                    ops += [f"0 ratio {hx(r)} 0", f"0 proc - n m r{rng.randint(0, 999)}",
                            rng.choice([f"0 ratio {hx(cfg.ratio)} 1", f"0 rel {hx(1.0)} 1"])]
                feats.add("pending-ramp")
            reset_at = len(ops)
            ops.append("0 reset")
            ops.append(cfg.new(1))
            post = gen.gen_valid_history(rng, cfg, rng.randint(3, 15), ratio_changes="calm",
                                         masks=rng.choice(["const", "none", "vary"]))
            pairs = 0
            for op in post.ops[1:]:
                ops.append(op)
                ops.append(retarget(op, 1))
                pairs += 1
            h = History(ops, {"cfg": cfg.line, "kind": cfg.kind, "ty": cfg.ty, "feats": sorted(feats),
                              "reset_at": reset_at, "pairs": pairs})
            hs.append(h)
        # every type: loud audio, reset(), then calls that leave a channel out followed by calls that use it again -- per-channel
        # storage that reset() did not clear shows when the channel comes back
        for i in range(2 * len(gen.ALL)):
            kind = gen.ALL[i % len(gen.ALL)]
            nch = rng.randint(2, 3)
            cfg = small_fftout_chunk(rng, gen.gen_cfg(rng, kinds=[kind], nch=nch, max_chunk=300))
            sg = "r%d" % rng.randint(0, 999)
            ops = [cfg.new(0)] + [f"0 proc - n m {sg}"] * rng.randint(1, 14)
            reset_at = len(ops)
            ops += ["0 reset", cfg.new(1)]
            pairs = 0
            for _ in range(rng.randint(1, 3)):
                m = ["1"] * nch
                m[rng.randrange(nch)] = "0"
                m = "".join(m)
                for _ in range(rng.randint(1, 3)):
                    ops += [f"0 proc {m} n m {sg}", f"1 proc {m} n m {sg}"]
                for _ in range(2):
                    ops += [f"0 proc - n m {sg}", f"1 proc - n m {sg}"]
                pairs += 3
            hs.append(History(ops, {"cfg": cfg.line, "kind": kind, "ty": cfg.ty, "feats": ["failed", "channel-returns-after-reset"],
                                    "reset_at": reset_at, "pairs": pairs}))
        # user-implemented interpolators of arbitrary (odd) length: reset() must restore the constructor's read position
        for i in range(max(8, self.n // 8)):
            kind = rng.choice(["sincin", "sincout"])
            cfg = gen.gen_cfg(rng, kinds=[kind], probe=True, max_chunk=300)
            p = cfg.line.split()
            if p[4] in ("0", "1") and p[6] == "1":
                continue        # D12
            p[5] = str(rng.choice([3, 5, 7, 9, 11, 33] if kind == "sincin" else [1, 3, 5, 7, 9, 11, 33]))
            p[-1] = "rprobe"
            cfg.line = " ".join(p)
            ops = [cfg.new(0)] + ["0 proc - n m r5"] * rng.randint(0, 3)
            reset_at = len(ops)
            ops += ["0 reset", cfg.new(1)]
            pairs = 0
            for _ in range(rng.randint(2, 4)):
                ops += ["0 proc - n m r9", "1 proc - n m r9"]
                pairs += 1
            hs.append(History(ops, {"cfg": cfg.line, "kind": kind, "ty": cfg.ty, "feats": ["failed", "odd-length-interpolator"],
                                    "reset_at": reset_at, "pairs": pairs}))
        # fixed-output types with chunk/ratio on (or one ulp from) an integer: whatever arithmetic reset() uses for the sizes it
        # recomputes must round like the constructor's.  reset() directly after construction or after a few calls.
        for i in range(max(12, self.n // 4)):
            kind = rng.choice(["fastout", "sincout"])
            num, den = rng.choice([(7, 10), (13, 10), (3, 10), (9, 10), (11, 10), (6, 10), (17, 10), (23, 10), (441, 160),
                                   (160, 441), (441, 480), (480, 441), (3, 7), (7, 3), (1, 3), (147, 320)])
            ratio = num / den
            chunk = num * rng.randint(1, max(1, 1500 // num))
            cfg = gen.gen_cfg(rng, kinds=[kind], probe=True, max_chunk=4096)
            p = cfg.line.split()
            p[2] = hx(ratio)
            p[5 if kind == "fastout" else 9] = str(chunk)
            cfg.line = " ".join(p)
            ops = [cfg.new(0)] + ["0 proc - n m r5"] * rng.randint(0, 2)
            reset_at = len(ops)
            ops += ["0 reset", cfg.new(1)]
            pairs = 0
            for _ in range(rng.randint(2, 4)):
                ops += ["0 proc - n m r9", "1 proc - n m r9"]
                pairs += 1
            hs.append(History(ops, {"cfg": cfg.line, "kind": kind, "ty": cfg.ty, "feats": ["failed", "integer-boundary"],
                                    "reset_at": reset_at, "pairs": pairs}))
        return hs

    def nontrivial(self, h):
        f = set(h.meta.get("feats", []))
        return bool(f & {"ratio-ramp", "ratio-step", "chunk", "failed", "pending-ramp", "part"}) and h.meta.get("pairs", 0) > 0

    def oracle(self, h):
        out = []
        k0 = h.meta.get("reset_at")
        if k0 is None:
            return out
        # getters after reset == getters of the fresh twin
        infos = {}
        for k, slot, name, t, fr, fm, info, gb in walk(h):
            infos[slot] = info
        ra, rb = fields(h.real[k0]), fields(h.real[k0 + 1])
        if ra["g"] != rb["g"] and ra["status"] == "ok" and rb["status"] == "ok":
            out.append(viol("C10", h, k0, infos.get("0"), "getters-after-reset",
                            {"reset": ra["g"], "fresh": rb["g"]}))
            return out
        k = k0 + 2
        while k + 1 < len(h.ops):
            if h.real[k] in ("skip",) or h.real[k + 1] in ("skip",):
                break
            if not same_obs(h.real[k], h.real[k + 1]):
                out.append(viol("C10", h, k, infos.get("0"), "future-after-reset",
                                {"after_reset": h.real[k][:200], "fresh": h.real[k + 1][:200]}))
                break
            k += 2
        return out


# ------------------------------------------------------------------------------------------ C12
def ulps(x, n):
    import struct
    b = struct.unpack("<q", struct.pack("<d", x))[0]
    return struct.unpack("<d", struct.pack("<q", b + n))[0]


@register
class C12(Prop):
    pid = "C12"
    rule = ("boundary histories: set_resample_ratio / _relative at the exact bounds orig*max, orig/max, max, 1/max, "
            "their f64 neighbours (+-1, +-2 ulp), values 1e-6 inside/outside, 0, negative, subnormal, NaN, +-inf, with and "
            "without ramp; set_chunk_size at 0, 1, max, max+1, huge; on all seven types. Decision compared with the exact "
            "rational range test on the exact values of the floats. distinct = (type, orig, max, argument class)")
    assumptions = COMMON_ASSUME + ["decisions within 4 ulp of a bound are classified as the recorded finding D9 (the f64 test "
                                   "new/orig cannot be exact); anything beyond that band is a violation"]
    n_quick = 120
    n_thorough = 3000

    def scenarios(self, rng):
        hs = []
        origs = [1.0, 0.1, 0.3, 1.0 / 3.0, 44100 / 48000, 48000 / 44100, 2.0, 0.5, 7.3, 0.07, 16.0, 1 / 16]
        tiny_origs = [4e-308, 1e-307]      # a factor of a few above the smallest normal double (fixed-input types only)
        maxs = [1.0, 1.1, 2.0, 3.0, 10.0, 1.5, 1.0000001, 100.0]
        for i in range(self.n):
            kind = rng.choice(gen.ALL)
            if kind in gen.ASYNC:
                orig = rng.choice(origs) if rng.random() < 0.7 else gen.pick_ratio(rng)
                maxrel = rng.choice(maxs)
                if kind in ("fastin", "sincin") and i % 10 == 3:
                    orig, maxrel = rng.choice(tiny_origs), rng.choice([8.0, 3.0, 2.0])
                cfg = gen.gen_cfg(rng, kinds=[kind], max_chunk=64)
                # rebuild the config line with our orig/maxrel
                p = cfg.line.split()
                p[2], p[3] = hx(orig), hx(maxrel)
                cfg.line = " ".join(p)
                cfg.ratio, cfg.maxrel = orig, maxrel
            else:
                cfg = gen.gen_cfg(rng, kinds=[kind])
                orig, maxrel = 1.0, 1.0
            ops = [cfg.new(0)]
            args = []
            hi, lo = orig * maxrel, orig / maxrel
            for b in (hi, lo):
                for d in (0, 1, -1, 2, -2):
                    args.append(("ratio", ulps(b, d), "bound%+d" % d))
                args.append(("ratio", b * (1 + 1e-6), "near+"))
                args.append(("ratio", b * (1 - 1e-6), "near-"))
            for b in (maxrel, 1.0 / maxrel):
                for d in (0, 1, -1, 2, -2):
                    args.append(("rel", ulps(b, d), "bound%+d" % d))
                args.append(("rel", b * (1 + 1e-6), "near+"))
                args.append(("rel", b * (1 - 1e-6), "near-"))
            if maxrel > 1:
                for v in (maxrel ** -0.5, maxrel ** 0.5, maxrel ** -0.9):
                    args.append(("rel", v, "inside"))
                    args.append(("ratio", orig * v, "inside"))
            for v, c in ((0.0, "zero"), (-0.0, "zero"), (-1.0, "neg"), (5e-324, "subnormal"), (float("nan"), "nan"),
                         (float("inf"), "inf"), (float("-inf"), "inf"), (orig, "orig"), (1e308, "huge")):
                args.append((rng.choice(["ratio", "rel"]), v, c))
            rng.shuffle(args)
            classes = set()
            for name, v, c in args[:rng.randint(8, len(args))]:
                # a third of the setter calls go through the object-safe wrapper trait (`&mut dyn VecResampler`)
                ops.append(f"0 {name} {hx(v)} {rng.choice([0, 1])}" + (" dyn" if rng.random() < 0.33 else ""))
                classes.add(c)
                if rng.random() < 0.3 and orig > 1e-300:
                    ops.append("0 proc - n m r%d" % rng.randint(0, 99))
            chunk = cfg.chunk
            for n in (0, 1, chunk, chunk + 1, max(1, chunk // 2), 2 ** 63, 2 ** 64 - 1):
                # (ratios next to the smallest normal double: setter decisions only -- processing at 1/ratio ~ 1e307 input
                # frames per output frame is outside anything the position arithmetic can represent)
                if rng.random() < 0.7 and orig > 1e-300:
                    ops.append(f"0 chunk {n}")
                    ops.append("0 proc - n m r1")
                    if rng.random() < 0.3:
                        # the bound is the construction-time chunk size whatever happened in between (reset included)
                        ops.append("0 reset")
                        ops.append(f"0 chunk {rng.choice([cfg.chunk, max(1, cfg.chunk - 1), cfg.chunk + 1])}")
            hs.append(History(ops, {"cfg": cfg.line, "kind": cfg.kind, "ty": cfg.ty, "feats": sorted(classes),
                                    "orig": orig, "maxrel": maxrel, "chunk": chunk}))
        return hs

    def distinct_key(self, h):
        return (h.meta["kind"], h.meta.get("orig"), h.meta.get("maxrel"), tuple(h.meta["feats"]))

    def oracle(self, h):
        from fractions import Fraction
        out = []
        for k, slot, name, t, fr, fm, info, gb in walk(h):
            if info is None or fr is None or name not in ("ratio", "rel", "chunk", "proc"):
                continue
            st = fr["status"]
            if st in ("skip",):
                break
            if info.kind in gen.FFT:
                want = {"ratio": "err SyncNotAdjustable", "rel": "err SyncNotAdjustable",
                        "chunk": "err ChunkSizeNotAdjustable"}.get(name)
                if want and st != want:
                    out.append(viol("C12", h, k, info, "sync-setter", {"want": want, "got": st}))
                if name != "proc" and fr["g"] != gb:
                    out.append(viol("C12", h, k, info, "rejected-call-changed-getters", {"before": gb, "after": fr["g"]}))
                continue
            if name in ("ratio", "rel"):
                v = unhx(t[2])
                if v != v or v in (float("inf"), float("-inf")):
                    exact_ok = False
                    band = False
                else:
                    x = Fraction(v)
                    o, m = Fraction(info.orig), Fraction(info.maxrel)
                    if name == "ratio":
                        lo, hi = o / m, o * m
                    else:
                        lo, hi = 1 / m, m
                    exact_ok = lo <= x <= hi
                    band = any(b != 0 and abs(x / b - 1) <= Fraction(1, 2 ** 50) for b in (lo, hi))
                got_ok = st == "ok"
                if st not in ("ok", "err RatioOutOfBounds"):
                    out.append(viol("C12", h, k, info, "setter-status", {"got": st}))
                elif got_ok != exact_ok:
                    v_ = viol("C12", h, k, info, "boundary-rounding" if band else "range-decision",
                              {"arg": v, "orig": info.orig, "max": info.maxrel, "exact_ok": exact_ok, "got": st},
                              model_same=(fm is not None and fm["status"] == st))
                    out.append(v_)
                if not got_ok and fr["g"] != gb:
                    out.append(viol("C12", h, k, info, "rejected-call-changed-getters", {"before": gb, "after": fr["g"]}))
            elif name == "chunk":
                n = int(t[2])
                if info.kind in ("sincin", "sincout"):
                    want_ok = 1 <= n <= info.chunk0
                    if (st == "ok") != want_ok or (not want_ok and st != f"err InvalidChunkSize {info.chunk0} {n}"):
                        out.append(viol("C12", h, k, info, "chunk-decision", {"n": n, "max": info.chunk0, "got": st}))
                    if st == "ok":
                        idx = 0 if info.kind == "sincin" else 2
                        if fr["g"][idx] != n:
                            out.append(viol("C12", h, k, info, "chunk-not-applied", {"n": n, "getters": fr["g"]}))
                else:
                    if st != "err ChunkSizeNotAdjustable":
                        out.append(viol("C12", h, k, info, "chunk-decision", {"n": n, "got": st}))
                if st != "ok" and fr["g"] != gb:
                    out.append(viol("C12", h, k, info, "rejected-call-changed-getters", {"before": gb, "after": fr["g"]}))
            elif name == "proc" and st.startswith("ok") and info.kind in ("sincin", "sincout"):
                a = st.split()
                if info.kind == "sincin" and int(a[1]) != info.chunk:
                    out.append(viol("C12", h, k, info, "next-call-size", {"chunk": info.chunk, "got": st}))
                if info.kind == "sincout" and int(a[2]) != info.chunk:
                    out.append(viol("C12", h, k, info, "next-call-size", {"chunk": info.chunk, "got": st}))
        return out[:3]


# ------------------------------------------------------------------------------------------ C13
@register
class C13(Prop):
    pid = "C13"
    rule = ("twin histories: slot 0 receives malformed processing calls (too few/many input or output channels, an active "
            "input/output channel short by 1..all frames, mask too short/long/empty, through process_into_buffer, "
            "process_partial_into_buffer, process and process_partial) at random points of a valid history; slot 1 receives "
            "only the valid calls. Every malformed call must return Err (no panic), write nothing, keep the getters, and all "
            "later observations of the two slots must be identical. Invalid constructor arguments: zero/negative/NaN ratios, "
            "max relative ratio < 1, zero rates. distinct = (type, malformed kind)")
    assumptions = COMMON_ASSUME
    n_quick = 140
    n_thorough = 4000

    def malformed(self, rng, cfg, mask):
        n = cfg.nch
        kinds = ["in-channels-with-mask", "in-and-mask-channels", "in-channels", "in-channels", "out-channels", "out-channels",
                 "out-channels", "in-short", "in-short", "in-short", "in-empty", "in-empty", "out-short", "out-short", "out-short",
                 "out-empty", "out-empty", "mask-length", "mask-length", "mask-length", "wrapper-malformed", "wrapper-malformed"]
        if n >= 2:
            kinds += ["empty-masked", "empty-masked"]
        kd = rng.choice(kinds)
        if kd == "in-channels-with-mask":
            # an explicit mask of the RIGHT length and the wrong number of input channels
            k = rng.choice([max(0, n - 1), n + 1, n + 3])
            return f"proc {'1' * n} n m r1 ic={k}", kd
        if kd == "in-and-mask-channels":
            # mask and input both have the same WRONG number of channels: the mask is what is reported
            k = rng.choice([n + 1, n + 2] + ([n - 1] if n > 1 else []))
            return f"proc {'1' * k} n m r1 ic={k}", kd
        if kd == "in-channels":
            return f"proc {mask} n m r1 ic={rng.choice([0, max(0, n - 1), n + 1, n + 3])}", kd
        if kd == "empty-masked":
            # an explicit mask with an inactive channel directly BELOW the offending one: the error names the real channel index
            k = rng.randint(1, n - 1)
            m = "".join(rng.choice("01") for _ in range(k - 1)) + "0" + "1" + "".join(rng.choice("01") for _ in range(n - k - 1))
            which = rng.choice(["si", "so"])
            return f"proc {m} n m r1 {which}={k}:0 em", ("in-empty-masked:%d" % k if which == "si" else "out-empty-masked:%d" % k)
        if kd == "out-channels":
            return f"proc {mask} n m r1 oc={rng.choice([0, max(0, n - 1), n + 1, n + 2])}", kd
        if kd == "in-short":
            return f"proc - n-{rng.choice([1, 1, 2, 5, 100000])} m r1", kd
        if kd == "in-empty":
            return f"proc - n m r1 si={rng.randrange(n)}:0", kd
        if kd == "out-short":
            return f"proc - n n-{rng.choice([1, 1, 2, 7, 100000])} r1", kd
        if kd == "out-empty":
            return f"proc - n m r1 so={rng.randrange(n)}:0", kd
        if kd == "mask-length":
            m = rng.choice(["e", "1" * (n + 1), "1" * max(0, n - 1) if n > 1 else "e", "0" * (n + 2), "10" * n])
            op = rng.choice(["proc {m} n m r1", "part {m} none m r1", "procw {m} n r1", "partw {m} none r1"])
            return op.format(m=m), kd
        return rng.choice([f"procw - n-1 r1", f"part - n n-1 r1", f"procw - n r1 ic={n + 1}"]), "wrapper-malformed"

    def scenarios(self, rng):
        hs = []
        for i in range(self.n):
            cfg = gen.gen_cfg(rng, max_chunk=300)
            base = gen.gen_valid_history(rng, cfg, rng.randint(4, 18), ratio_changes="calm", masks="none")
            ops = [cfg.new(0), cfg.new(1)]
            kinds = set()
            bad_at = []
            bad_kind = {}
            for op in base.ops[1:]:
                if rng.random() < 0.35:
                    m, kname = self.malformed(rng, cfg, "-")
                    # a malformed call must be malformed: input channel count equal to nch is not
                    bad_at.append(len(ops))
                    bad_kind[len(ops)] = kname
                    ops.append(f"0 {m}")
                    kinds.add(kname)
                ops.append(op)
                ops.append(retarget(op, 1))
            hs.append(History(ops, {"cfg": cfg.line, "kind": cfg.kind, "ty": cfg.ty, "feats": sorted(kinds),
                                    "bad_at": bad_at, "bad_kind": bad_kind}))
        # a malformed call while a ratio ramp is pending (the sizes a call demands then differ from those at either end of the
        # ramp): output or input one frame short of what the getters ask for
        for i in range(max(10, self.n // 4)):
            cfg = gen.gen_cfg(rng, kinds=gen.ASYNC, max_chunk=400)
            if cfg.maxrel <= 1 or cfg.chunk < 60:
                continue
            ops = [cfg.new(0), cfg.new(1)] + ["0 proc - n m r3", "1 proc - n m r3"] * rng.randint(0, 2)
            r, rel = gen.in_range_ratio(rng, cfg, calm=True)
            ops += [f"0 ratio {hx(r)} 1", f"1 ratio {hx(r)} 1"]
            bad_at, bad_kind = [], {}
            for _ in range(rng.randint(1, 2)):
                m, kname = rng.choice([("proc - n n-1 r3", "out-short"), ("proc - n-1 m r3", "in-short"),
                                       ("proc - n n-2 r3", "out-short")])
                bad_at.append(len(ops))
                bad_kind[len(ops)] = kname
                ops.append(f"0 {m}")
            ops += ["0 proc - n n r3", "1 proc - n n r3"] * rng.randint(1, 3)
            hs.append(History(ops, {"cfg": cfg.line, "kind": cfg.kind, "ty": cfg.ty, "feats": ["pending-ramp"] + sorted(set(bad_kind.values())),
                                    "bad_at": bad_at, "bad_kind": bad_kind}))
        # a rejected call that carried a (well-formed) mask, then valid calls WITHOUT a mask: the stored mask of the rejected
        # call must not survive
        for i in range(max(10, self.n // 4)):
            cfg = gen.gen_cfg(rng, max_chunk=300, nch=rng.choice([2, 3, 4]))
            m = gen.rand_mask(rng, cfg.nch, allow_all_false=False)
            while m == "-" or "0" not in m or "1" not in m:
                m = "".join(rng.choice("01") for _ in range(cfg.nch))
            ops = [cfg.new(0), cfg.new(1)] + ["0 proc - n m r3", "1 proc - n m r3"] * rng.randint(0, 2)
            bad_at, bad_kind = [], {}
            first = m.index("1")
            bad, kname = rng.choice([(f"proc {m} n m r3 si={first}:0", "in-empty"), (f"proc {m} n m r3 so={first}:0", "out-empty"),
                                     (f"proc {m} n m r3 ic={cfg.nch + 1}", "in-channels"), (f"proc {m} n m r3 oc={cfg.nch - 1}", "out-channels")])
            bad_at.append(len(ops))
            bad_kind[len(ops)] = kname
            ops.append(f"0 {bad}")
            ops += ["0 proc - n m r3", "1 proc - n m r3"] * rng.randint(2, 4)
            hs.append(History(ops, {"cfg": cfg.line, "kind": cfg.kind, "ty": cfg.ty, "feats": ["masked-rejected", kname],
                                    "bad_at": bad_at, "bad_kind": bad_kind}))
        # constructors
        for i in range(max(10, self.n // 6)):
            ty = rng.choice(["f32", "f64"])
            bad = rng.choice([0.0, -1.0, -0.0, float("nan"), float("-inf")])
            k = rng.choice(gen.ALL)
            if k in ("fastin", "fastout"):
                line = f"{ty} {k} {hx(bad)} {hx(2.0)} 2 32 2" if rng.random() < 0.5 else f"{ty} {k} {hx(1.0)} {hx(rng.choice([0.5, 0.999999, -1.0, 0.0]))} 2 32 2"
            elif k in ("sincin", "sincout"):
                line = (f"{ty} {k} {hx(bad)} {hx(2.0)} 2 64 16 {hx32(0.95)} 2 32 2 probe" if rng.random() < 0.5 else
                        f"{ty} {k} {hx(1.0)} {hx(rng.choice([0.5, 0.999999, -1.0]))} 2 64 16 {hx32(0.95)} 2 32 2 probe")
            elif k == "fftio":
                line = f"{ty} fftio {rng.choice(['0 48000', '44100 0', '0 0'])} 64 2"
            else:
                line = f"{ty} {k} {rng.choice(['0 48000', '44100 0', '0 0'])} 64 2 2"
            hs.append(History([f"0 new {line}"], {"cfg": line, "kind": k, "ty": ty, "feats": ["ctor"], "ctor": True,
                                                   "nan": bad != bad}))
        return hs

    def distinct_key(self, h):
        return (h.meta["kind"], tuple(h.meta["feats"]))

    def oracle(self, h):
        out = []
        if h.meta.get("ctor"):
            st = h.real[0].split(" | ")[0]
            if not st.startswith("err Invalid"):
                # NaN ratio is accepted by the constructors (NaN <= 0.0 is false): outside the statement ("non-positive")
                if not h.meta.get("nan"):
                    out.append({"property": "C13", "kind": h.meta["kind"], "clause": "ctor-accepts-invalid", "step": 0,
                                "op": h.ops[0], "real": h.real[0], "ops": h.ops, "meta": h.meta, "calm": True})
            return out
        bad_at = set(h.meta.get("bad_at", []))
        infos = {}
        k = 2
        for kk, slot, name, t, fr, fm, info, gb in walk(h):
            infos[slot] = info
            if kk in bad_at:
                st = fr["status"]
                if st == "skip":
                    break
                if not st.startswith("err"):
                    bk = h.meta.get("bad_kind", {}).get(kk) or h.meta.get("bad_kind", {}).get(str(kk))
                    bk0 = (bk or "").split(":")[0]
                    if st.startswith("ok") and gb is not None and (
                            (bk0 in ("in-short", "in-empty", "wrapper-malformed", "in-empty-masked") and gb[0] == 0) or
                            (bk0 in ("out-short", "out-empty", "wrapper-malformed", "out-empty-masked") and gb[2] == 0)):
                        # nothing was required of that buffer, so the call was not malformed after all:
                        # this history says nothing (the twin did not get the call)
                        h.meta["not_malformed"] = True
                        return []
                    out.append(viol("C13", h, kk, info, "malformed-not-rejected:" + st.split(" ")[0], {"got": h.real[kk][:200]}))
                    return out
                if fr["u"] == "0":
                    out.append(viol("C13", h, kk, info, "malformed-call-wrote-output", {"got": h.real[kk][:200]}))
                    return out
                if gb is not None and fr["g"] != gb:
                    out.append(viol("C13", h, kk, info, "malformed-call-changed-getters", {"before": gb, "after": fr["g"]}))
                    return out
                # "the matching Err variant": what is wrong with the call decides the variant
                bk = h.meta.get("bad_kind", {}).get(kk) or h.meta.get("bad_kind", {}).get(str(kk))
                if bk and bk.split(":")[0] in ("in-empty-masked", "out-empty-masked"):
                    ch = bk.split(":")[1]
                    pre = "err InsufficientInputBufferSize " if bk.startswith("in") else "err InsufficientOutputBufferSize "
                    if not st.startswith(pre + ch + " "):
                        out.append(viol("C13", h, kk, info, "wrong-error-payload", {"malformed": bk, "expected": pre + ch, "got": st}))
                        return out
                want = {"in-channels": "err WrongNumberOfInputChannels", "in-channels-with-mask": "err WrongNumberOfInputChannels",
                        "in-and-mask-channels": "err WrongNumberOfMaskChannels", "out-channels": "err WrongNumberOfOutputChannels",
                        "mask-length": "err WrongNumberOfMaskChannels", "in-short": "err InsufficientInputBufferSize",
                        "in-empty": "err InsufficientInputBufferSize", "out-short": "err InsufficientOutputBufferSize",
                        "out-empty": "err InsufficientOutputBufferSize"}.get(bk)
                if want is not None and not st.startswith(want):
                    out.append(viol("C13", h, kk, info, "wrong-error-variant", {"malformed": bk, "expected": want, "got": st}))
                    return out
                if st.startswith("err Wrong") and info is not None and st.split()[2] != str(info.nch if hasattr(info, "nch") else st.split()[2]):
                    out.append(viol("C13", h, kk, info, "wrong-error-payload", {"malformed": bk, "got": st}))
                    return out
        # twin comparison of the valid ops
        k = 2
        while k < len(h.ops):
            if k in bad_at:
                k += 1
                continue
            if k + 1 >= len(h.ops):
                break
            if h.real[k] == "skip" or h.real[k + 1] == "skip":
                break
            if not same_obs(h.real[k], h.real[k + 1]):
                out.append(viol("C13", h, k, infos.get("0"), "failed-call-not-invisible",
                                {"with_failed_calls": h.real[k][:200], "without": h.real[k + 1][:200]}))
                break
            k += 2
        return out


# ------------------------------------------------------------------------------------------ C16
@register
class C16(Prop):
    pid = "C16"
    rule = ("twin histories on all seven types and both sample types: slot 0 calls process / process_partial_into_buffer / "
            "process_partial (also through &mut dyn VecResampler), slot 1 calls process_into_buffer on the equivalent explicit "
            "input (truncated and zero-padded to input_frames_next, or all zeros for None) with allocate-sized buffers; "
            "returned frames, lengths and getters compared bit for bit. distinct = (config, wrapper kinds used); "
            "non-trivial = a partial call with 1 <= len < input_frames_next or a masked wrapper call")
    assumptions = COMMON_ASSUME
    n_quick = 140
    n_thorough = 4000

    def scenarios(self, rng):
        hs = []
        for i in range(self.n):
            cfg = gen.gen_cfg(rng, max_chunk=300)
            ops = [cfg.new(0), cfg.new(1)]
            feats = set()
            mask = gen.rand_mask(rng, cfg.nch)
            sg = gen.rand_sig(rng)
            pairs = []
            for _ in range(rng.randint(3, 16)):
                c = rng.random()
                dy = " dyn" if rng.random() < 0.3 else ""
                if c < 0.3:
                    a, b, f = f"procw {mask} n {sg}{dy}", f"proc {mask} n m {sg}", "process"
                elif c < 0.4:
                    k = rng.randint(0, 6)
                    em = " em" if mask != "-" and rng.random() < 0.6 else ""
                    a, b, f = f"part {mask} p{k} m {sg}{dy}{em}", f"proc {mask} n m {sg} zl=p{k}{em}", "partial-some"
                elif c < 0.5:
                    # channels of different lengths (absolute lengths 1..7, clipped to input_frames_next by the wrapper)
                    lens = [rng.randint(1, 7) for _ in range(cfg.nch)]
                    si = " ".join(f"si={ch}:{l}" for ch, l in enumerate(lens))
                    zc = " ".join(f"zc={ch}:{l}" for ch, l in enumerate(lens))
                    a, b, f = f"part {mask} n m {sg} {si}{dy}", f"proc {mask} n m {sg} {zc}", "partial-ragged"
                elif c < 0.62:
                    a, b, f = f"part {mask} none m {sg}{dy}", f"proc {mask} n m z", "partial-none"
                elif c < 0.74:
                    k = rng.randint(0, 6)
                    a, b, f = f"partw {mask} p{k} {sg}{dy}", f"proc {mask} n m {sg} zl=p{k}", "process_partial"
                elif c < 0.8:
                    a, b, f = f"partw {mask} none {sg}{dy}", f"proc {mask} n m z", "process_partial-none"
                elif c < 0.9:
                    a, b, f = f"proc {mask} n m {sg} dyn", f"proc {mask} n m {sg}", "dyn-forward"
                elif c < 0.93:
                    a, b, f = "get dyn", "get", "dyn-getters"
                elif c < 0.95:
                    a, b, f = "bufs dyn", "bufs", "dyn-allocate"
                else:
                    # every setter of the wrapper trait, absolute and relative, ramped or not (the FFT types answer
                    # SyncNotAdjustable on both paths)
                    ramp = rng.choice([0, 1])
                    if cfg.kind in gen.ASYNC and cfg.maxrel > 1:
                        r, rel = gen.in_range_ratio(rng, cfg, calm=True)
                    else:
                        r, rel = cfg.ratio if cfg.kind in gen.ASYNC else 1.0, 1.0
                    if rng.random() < 0.5:
                        a, b, f = f"ratio {hx(r)} {ramp} dyn", f"ratio {hx(r)} {ramp}", "dyn-setter"
                    else:
                        a, b, f = f"rel {hx(rel)} {ramp} dyn", f"rel {hx(rel)} {ramp}", "dyn-setter-relative"
                if mask != "-":
                    feats.add("masked")
                feats.add(f)
                pairs.append(len(ops))
                ops.append(f"0 {a}")
                ops.append(f"1 {b}")
            hs.append(History(ops, {"cfg": cfg.line, "kind": cfg.kind, "ty": cfg.ty, "feats": sorted(feats),
                                    "pairs": pairs}))
        # FftFixedIn with a chunk that is not a whole number of (small) blocks, long enough to pass through every alignment of
        # the carried-over frames with the block size: process() sizes its output by output_frames_next()
        for i in range(max(6, self.n // 20)):
            ri, ro = rng.choice([(2, 1), (3, 2), (2, 3), (7, 5), (5, 7), (147, 160)])
            blk = ri // math.gcd(ri, ro)
            k = rng.randint(1, 4)
            chunk = blk * k * rng.randint(1, 3) + rng.randint(1, max(1, blk * k - 1))
            ty, nch = rng.choice(["f64", "f32"]), rng.choice([1, 2])
            line = f"{ty} fftin {ri} {ro} {chunk} {rng.choice([1, 2, 3])} {nch}"
            ops = [f"0 new {line}", f"1 new {line}"]
            pairs = []
            for _ in range(min(170, 3 * blk * k + 6)):
                pairs.append(len(ops))
                ops += ["0 procw - n r5", "1 proc - n m r5"]
            hs.append(History(ops, {"cfg": line, "kind": "fftin", "ty": ty, "feats": ["process", "fftin-alignments"],
                                    "pairs": pairs}))
        # a ramp is pending when the wrapper is called: what the wrapper allocates (sized by the getter) must be what the
        # core call asks for DURING the ramp, upwards and downwards, every asynchronous type
        for i in range(3 * len(gen.ASYNC)):
            kind = gen.ASYNC[i % len(gen.ASYNC)]
            cfg = gen.gen_cfg(rng, kinds=[kind], max_chunk=1024, nch=rng.choice([1, 2]), sinc_lens=[8, 16])
            p = cfg.line.split()
            p[3] = hx(2.0)
            p[5 if kind.startswith("fast") else 9] = str(rng.choice([256, 480, 1024]))
            if not (0.2 <= cfg.ratio <= 5):
                p[2] = hx(1.2)
            line = " ".join(p)
            ops = [f"0 new {line}", f"1 new {line}"]
            pairs = []
            for rel in rng.sample([0.97, 1.05, 0.998, 0.9, 1.002, 1.1], 4):
                form = f"rel {hx(rel)} 1"
                ops += [f"0 {form}", f"1 {form}"]
                a, b = rng.choice([("procw - n r3", "proc - n m r3"), ("partw - p3 r3", "proc - n m r3 zl=p3"),
                                   ("procw - n r3 dyn", "proc - n m r3"), ("partw - none r3", "proc - n m z")])
                pairs.append(len(ops))
                ops += [f"0 {a}", f"1 {b}"]
                pairs.append(len(ops))
                ops += ["0 procw - n r3", "1 proc - n m r3"]
            hs.append(History(ops, {"cfg": line, "kind": kind, "ty": cfg.ty,
                                    "feats": ["process", "process_partial", "pending-ramp"], "pairs": pairs}))
        # asynchronous types at sizes where chunk*ratio (fixed input) or chunk/ratio (fixed output) is an EXACT integer for a
        # ratio that is not a binary fraction: the size estimates sit on a floor/ceil boundary there, and the wrappers size their
        # buffers with the getters while the core call checks against its own evaluation of the same expression
        decs = [(13, 10), (11, 10), (7, 10), (9, 10), (17, 10), (23, 10), (3, 10), (441, 80), (441, 160), (441, 320)]
        for kind in gen.ASYNC:
            for num, den in decs:
                for _ in range(3 if self.tier == "quick" else 12):
                    unit = den if kind.endswith("in") else num
                    chunk = unit * rng.randint(1, max(1, 2000 // unit))
                    cfg = gen.gen_cfg(rng, kinds=[kind], max_chunk=4096, nch=rng.choice([1, 2]), sinc_lens=[8, 16])
                    p = cfg.line.split()
                    p[2] = hx(num / den)
                    p[5 if kind.startswith("fast") else 9] = str(chunk)
                    line = " ".join(p)
                    ops = [f"0 new {line}", f"1 new {line}"]
                    pairs = []
                    for a, b in ((f"procw - n r3", "proc - n m r3"), ("partw - p3 r3", "proc - n m r3 zl=p3"),
                                 ("partw - none r3", "proc - n m z"), ("procw - n r3 dyn", "proc - n m r3")):
                        pairs.append(len(ops))
                        ops += [f"0 {a}", f"1 {b}"]
                    hs.append(History(ops, {"cfg": line, "kind": kind, "ty": cfg.ty,
                                            "feats": ["process", "process_partial", "process_partial-none", "integer-product-size"],
                                            "pairs": pairs}))
        return hs

    def nontrivial(self, h):
        f = set(h.meta["feats"])
        return bool(f & {"partial-some", "partial-ragged", "process_partial", "masked"})

    def oracle(self, h):
        out = []
        infos = {}
        for kk, slot, name, t, fr, fm, info, gb in walk(h):
            infos[slot] = info
        for k in h.meta.get("pairs", []):
            ra, rb = h.real[k], h.real[k + 1]
            if ra == "skip" or rb == "skip":
                break
            fa, fb = fields(ra), fields(rb)
            name = h.ops[k].split()[1]
            bad = None
            if fa["g"] != fb["g"]:
                bad = "getters"
            elif name in ("procw", "partw"):
                # wrapper: `ok len,len,..`, data hashes of whole vectors; core: `ok in out`, hashes of written frames
                if fa["status"].startswith("ok") and fb["status"].startswith("ok"):
                    lens = [int(x) for x in fa["status"].split()[1].split(",")] if len(fa["status"].split()) > 1 else []
                    nout = int(fb["status"].split()[2])
                    for c, (da, db) in enumerate(zip(fa["d"], fb["d"])):
                        if db == "-":
                            if lens[c] != 0:
                                bad = "masked-channel-not-empty"
                        else:
                            if lens[c] != nout:
                                bad = "wrapper-length"
                            elif da != db:
                                bad = "wrapper-data"
                elif fa["status"] != fb["status"]:
                    bad = "status"
            else:
                if fa["status"] != fb["status"] or fa["d"] != fb["d"]:
                    bad = "data" if fa["status"] == fb["status"] else "status"
            if bad:
                out.append(viol("C16", h, k, infos.get("0"), "wrapper-vs-core:" + bad,
                                {"wrapper": ra[:240], "core": rb[:240]}))
                break
        return out


# ------------------------------------------------------------------------------------------ C18
@register
class C18(Prop):
    pid = "C18"
    rule = ("every generated history (all seven types, f32/f64, ratio/chunk changes, masks, wrappers; several instances per "
            "history) is executed by the real crate once alone on one thread and once concurrently with all the others on up "
            "to 16 threads, the owning session migrating to another thread every 1-3 calls (constructors included, so FFT "
            "planners and CPU-feature detection run concurrently); both observation streams must be identical, and the solo "
            "stream must equal the model's. distinct = (config set, feature set); non-trivial = the history migrated "
            "between >= 2 threads")
    assumptions = COMMON_ASSUME + ["the OS scheduler and the memory model are outside the model: no theorem exhibits a data race"]
    n_quick = 96
    n_thorough = 1500

    def scenarios(self, rng):
        hs = []
        for i in range(self.n):
            nslots = rng.choice([1, 2, 3])
            ops = []
            feats = set()
            cfgs = []
            for sl in range(nslots):
                cfg = gen.gen_cfg(rng, max_chunk=300, probe=rng.random() < 0.5)
                cfgs.append(cfg.line)
                # a third of the streams carry subnormal-range samples (d: subnormal in f32, e: subnormal in f64): the
                # arithmetic must not depend on floating-point control state left behind on a thread
                tiny = rng.choice([None, None, "d%d" % rng.randint(0, 999), "e%d" % rng.randint(0, 999)])
                hsub = gen.gen_valid_history(rng, cfg, rng.randint(3, 14), slot=sl, ratio_changes="calm", sig=tiny)
                if tiny:
                    feats.add("subnormal-signal")
                if rng.random() < 0.4:
                    # state that survives an error return must not live in the thread: a rejected partial / wrapper call
                    # (too few output channels, after the wrapper has prepared its input) somewhere in the stream, flushes later
                    k = rng.randint(1, len(hsub.ops))
                    bad = rng.choice([f"{sl} part - p2 m r77 oc={max(0, cfg.nch - 1)}", f"{sl} part - p1 n-1 r78",
                                      f"{sl} part - p3 m r79 oc={cfg.nch + 1}"])
                    hsub.ops.insert(k, bad)
                    hsub.ops.append(f"{sl} part - none m z")
                    hsub.ops.append(f"{sl} partw - none z")
                    feats.add("rejected-partial")
                feats |= set(hsub.meta["feats"])
                ops.append(hsub.ops)
            # interleave the slots' ops
            merged = []
            idx = [0] * nslots
            while any(idx[k] < len(ops[k]) for k in range(nslots)):
                k = rng.choice([k for k in range(nslots) if idx[k] < len(ops[k])])
                merged.append(ops[k][idx[k]])
                idx[k] += 1
            hs.append(History(merged, {"cfg": " ; ".join(cfgs), "kind": "mixed", "ty": "mixed", "feats": sorted(feats)}))
        # large filter tables (>= 2^17 points), each built several times, alone and concurrently: equal arguments must give
        # bit-identical tables whatever else is being constructed at the same moment
        for i in range(8 if self.tier == "quick" else 32):
            ty = rng.choice(["f64", "f32"])
            kind = rng.choice(["sincin", "sincout"])
            sl, osf = rng.choice([(512, 256), (256, 512), (1024, 128), (512, 512)])
            line = f"{ty} {kind} {hx(rng.choice([0.9, 1.1, 48000 / 44100]))} {hx(1.0)} {rng.randint(0, 3)} {sl} {osf} {hx32(0.95)} {rng.randint(0, 5)} 64 1 auto"
            ops = [f"0 new {line}", f"1 new {line}", f"2 new {line}"]
            for _ in range(4):
                ops += [f"0 proc - n m r{i + 7}", f"1 proc - n m r{i + 7}", f"2 proc - n m r{i + 7}"]
            hs.append(History(ops, {"cfg": line, "kind": "mixed", "ty": "mixed", "feats": ["large-table"], "twin_slots": 3}))
        # recycled heap memory: slot 0 is built first; a neighbour instance then processes loud audio and is dropped (its slot
        # is overwritten by a tiny instance); slot 1 is built from the SAME arguments as slot 0 and most likely receives the
        # neighbour's freed buffers.  Both are then driven through ratio changes and calls that leave a channel out and take
        # it back: every sample either instance reads must be one it wrote itself.
        for i in range(3 * len(gen.ALL) if self.tier == "quick" else 8 * len(gen.ALL)):
            kind = gen.ALL[i % len(gen.ALL)]
            nch = rng.randint(2, 3)
            cfg = gen.gen_cfg(rng, kinds=[kind], nch=nch, max_chunk=200, probe=rng.random() < 0.5)
            if kind in gen.ASYNC:
                p = cfg.line.split()
                p[3] = hx(rng.choice([2.0, 4.0, 10.0]))
                cfg.line, cfg.maxrel = " ".join(p), unhx(p[3])
            tiny = "f64 fastin 3ff0000000000000 3ff0000000000000 4 1 1"
            ops = [cfg.new(0), cfg.new(2)]
            wide = kind in ("fastout", "sincout")     # (large ratio steps on the fixed-input types run into findings D3/D4)
            if wide:
                ops.append(f"2 rel {hx(1 / cfg.maxrel * (1 + 1e-9))} 0")
            ops += [f"2 proc - n m r{i}"] * 3 + [f"2 new {tiny}", cfg.new(1)]
            start = len(ops)
            for rnd in range(rng.randint(2, 3)):
                both = []
                if kind in gen.ASYNC:
                    rel = rng.choice([1 / cfg.maxrel * (1 + 1e-9), 0.3 if cfg.maxrel >= 4 else 0.6, 1.0, cfg.maxrel * (1 - 1e-9)])
                    if rnd == 0:
                        rel = 1 / cfg.maxrel * (1 + 1e-9)      # most input per call: the far end of the internal buffers
                    if not wide:
                        rel = rng.choice([1.0, 1.01, 0.99])
                    both.append(f"rel {hx(rel)} 0")
                m = ["1"] * nch
                m[rng.randrange(nch)] = "0"
                m = "".join(m)
                both += [f"proc {m} n m r{i + 50}"] * rng.randint(1, 2)
                both += [f"proc - n m r{i + 50}"] * 2
                for b in both:
                    ops += [f"0 {b}", f"1 {b}"]
            hs.append(History(ops, {"cfg": cfg.line, "kind": "mixed", "ty": "mixed", "feats": ["recycled-memory"],
                                    "twin_slots": 2, "twin_from": start}))
        return hs

    def nontrivial(self, h):
        return h.meta.get("threads", 0) >= 2

    def oracle(self, h):
        """two instances built from the same arguments inside one history and driven by the same calls must observe the
        same thing, bit for bit (`deterministic`: outputs are a function of constructor arguments and call history)"""
        out = []
        if not h.meta.get("twin_slots"):
            return out
        n = int(h.meta["twin_slots"])
        k = int(h.meta.get("twin_from", n))
        while k + n - 1 < len(h.ops):
            obs = h.real[k:k + n]
            if "skip" in obs or "missing" in obs:
                break
            for j in range(1, n):
                if not same_obs(obs[0], obs[j]):
                    out.append({"property": "C18", "kind": "mixed", "clause": "equal-instances-differ", "calm": True,
                                "step": k + j, "op": h.ops[k + j], "detail": {"first": obs[0][:200], "other": obs[j][:200]},
                                "ops": h.ops, "meta": h.meta})
                    return out
            k += n
        return out

    def extra(self, rng, cov):
        import subprocess
        import tempfile
        viols, notes = [], []
        hs = getattr(self, "_last", None)
        return viols, notes

    def run(self, rng, histories=None, have_model=True):
        import subprocess
        import shutil
        hs = histories if histories is not None else (self.corpus() + self.scenarios(rng))
        res = Prop.run(self, rng, histories=hs, have_model=have_model)
        d = os.path.join(build.WORK, f"threads-{os.getpid()}")
        os.makedirs(d, exist_ok=True)
        files = []
        fhs = []
        for k, h in enumerate(hs):
            if any(str(r).split(" ")[0] in ("abort", "hang") for r in (h.real or [])):
                # the solo run died in a non-unwinding panic (reported by the checks that own that failure): the threaded
                # runner shares one process and cannot survive it
                continue
            p = os.path.join(d, f"h{k}.txt")
            with open(p, "w") as f:
                f.write(h.text(k))
            files.append(p)
            fhs.append(h)
        nthreads = 16
        rounds = 1 if self.tier == "quick" else 4
        migrated = 0
        for r in range(rounds):
            p = subprocess.run([build.WORKER, "threads", str(nthreads)] + files, stdout=subprocess.PIPE,
                               stderr=subprocess.PIPE, text=True, timeout=3600)
            if p.returncode != 0:
                res["violations"].append({"property": "C18", "kind": "mixed", "clause": "thread-run-crashed", "calm": True,
                                          "step": 0, "op": "threads", "detail": p.stderr[-400:], "ops": [], "meta": {}})
                break
            for line in p.stdout.splitlines():
                t = line.split()
                if t[0] == "diff":
                    k = files.index(t[1])
                    step = int(t[2].split("=")[1])
                    res["violations"].append({"property": "C18", "kind": "mixed", "clause": "threaded-run-differs",
                                              "calm": True, "step": step, "op": fhs[k].ops[max(0, step - 1)],
                                              "detail": "observation stream differs between the solo run and the "
                                                        f"{nthreads}-thread run with migration", "ops": fhs[k].ops,
                                              "meta": fhs[k].meta})
                elif t[0] == "same":
                    k = files.index(t[1])
                    th = int(t[3].split("=")[1])
                    fhs[k].meta["threads"] = max(fhs[k].meta.get("threads", 0), th)
                elif t[0] == "summary":
                    migrated += int(t[3].split("=")[1])
        shutil.rmtree(d, ignore_errors=True)
        res["coverage"]["distinct"] = {self.distinct_key(h) for h in hs if self.nontrivial(h)}
        res["coverage"]["dist"]["thread_migrations"] = migrated
        res["coverage"]["dist"]["threads"] = nthreads
        res["coverage"]["dist"]["rounds"] = rounds
        return res


# ------------------------------------------------------------------------------------------ C09
RT_OPS = ("proc", "ratio", "rel", "chunk", "reset", "get")


@register
class C09(Prop):
    pid = "C09"
    rule = ("every generated valid history on all seven types x {f32,f64} (first calls, calls after ratio/chunk changes and "
            "after reset, masked calls, larger-than-needed buffers, failing calls): the counting global allocator of the "
            "harness must report (alloc, realloc, dealloc) = (0,0,0) around every process_into_buffer, setter, reset and getter "
            "call, and > 0 around the allocating wrappers (so the counter is known to work). distinct = (config, op kinds); "
            "non-trivial = >= 1 real-time call after a ratio/chunk change or reset, or a masked call")
    assumptions = COMMON_ASSUME + ["allocation inside realfft/rustfft is observed by the counter, not modelled",
                                   "the `log` feature is off in the harness build"]
    n_quick = 160
    n_thorough = 5000

    def scenarios(self, rng):
        hs = []
        for i in range(self.n):
            cfg = gen.gen_cfg(rng, max_chunk=500, probe=rng.random() < 0.4)
            h = gen.gen_valid_history(rng, cfg, rng.randint(4, 30), ratio_changes="calm", masks="vary")
            if rng.random() < 0.3:
                h.ops.append("0 proc - n-1 n i")
                h.ops.append("0 proc - n n-1 i")
                h.ops.append("0 proc 1 n n i" if cfg.nch != 1 else "0 proc 11 n n i")
            hs.append(h)
        # many channels (33..40): per-call bookkeeping over the channels must not outgrow what the constructor set aside
        for kind in gen.ALL:
            cfg = gen.gen_cfg(rng, kinds=[kind], nch=rng.randint(33, 40), max_chunk=48, probe=True, sinc_lens=[8, 16])
            h = gen.gen_valid_history(rng, cfg, rng.randint(4, 8), ratio_changes="calm", masks="vary", wrappers=False,
                                      partial=False)
            h.meta["feats"] = sorted(set(h.meta["feats"]) | {"many-channels", "reset"})
            hs.append(h)
        # the whole permitted ratio range, its ends included, before the first call and in mid-stream (stepped and ramped):
        # the buffers sized by the constructor must be enough for every ratio the setters accept
        for i in range(self.n // 3):
            cfg = gen.gen_cfg(rng, kinds=gen.ASYNC, max_chunk=500, probe=rng.random() < 0.5)
            if cfg.maxrel <= 1:
                continue
            h = gen.gen_valid_history(rng, cfg, rng.randint(4, 20), ratio_changes="any", masks="vary")
            lo, hi = (1 / cfg.maxrel) * (1 + 1e-9), cfg.maxrel * (1 - 1e-9)
            first = rng.choice([lo, hi, lo])
            h.ops.insert(1, f"0 rel {hx(first)} 0")
            h.ops.insert(2, "0 proc - n m i")
            h.ops.insert(3, "0 proc - n m i")
            h.meta["feats"] = sorted(set(h.meta["feats"]) | {"ratio-step", "range-ends"})
            hs.append(h)
        return hs

    def nontrivial(self, h):
        return bool(set(h.meta.get("feats", [])) & {"ratio-ramp", "ratio-step", "chunk", "reset"})

    def oracle(self, h):
        out = []
        wrapper_allocs = 0
        for k, slot, name, t, fr, fm, info, gb in walk(h):
            if fr is None or fr["a"] is None or info is None:
                continue
            if name in RT_OPS and fr["a"] != "0,0,0":
                out.append(viol("C09", h, k, info, "heap-traffic-in-realtime-path:" + name,
                                {"alloc,realloc,dealloc": fr["a"]}))
                break
            if name in ("procw", "partw", "part") and fr["status"].startswith("ok"):
                wrapper_allocs += int(fr["a"].split(",")[0])
        h.meta["wrapper_allocs"] = wrapper_allocs
        return out


# ------------------------------------------------------------------------------------------ C15
def run_lines(cmd, lines):
    import subprocess
    p = subprocess.run(cmd, input="\n".join(lines) + "\n", stdout=subprocess.PIPE, stderr=subprocess.PIPE, text=True,
                       timeout=3600)
    return p.stdout.splitlines(), p.returncode


def kern_wave_value(spec, k, index, length):
    kind, arg = spec.split(":")
    a = int(arg)
    K2 = 0xC2B2AE3D27D4EB4F
    h = splitmix64(a ^ ((k * K2) & 0xFFFFFFFFFFFFFFFF))
    noise = (h >> 11) * (1.0 / 4503599627370496.0) - 1.0
    if kind == "imp":
        return 1.0 if k == a else 0.0
    if kind == "int":
        return float(h % 17) - 8.0
    if kind == "rnd":
        return noise
    if kind == "dyn":
        e = (splitmix64(h) % 81) - 40
        return noise * (2.0 ** e)
    if kind == "s32":
        return noise * 2.0 ** -140
    if kind == "s64":
        return noise * 2.0 ** -1040
    if kind == "poi":
        return noise if index <= k < index + length else float("nan")
    raise ValueError(spec)


@register
class C15(Prop):
    pid = "C15"
    rule = ("kernel protocol against the real ScalarInterpolator / AvxInterpolator / SseInterpolator (f32 and f64): tables read "
            "out with unit impulses must be bit-identical across the three kernels and agree with the model's make_sincs; "
            "dot products on impulse, small-integer, noise, huge-dynamic-range and NaN-poisoned waves (NaN everywhere outside "
            "the window) at every alignment: SIMD vs scalar within 8*eps*sum|wave*tap|, the Lean lane models of the scalar and "
            "SSE kernels bit-exact against the real ones (AVX within the FMA tolerance), a NaN-poisoned wave must give a finite "
            "value, an index with index+len >= wave.len() must panic. distinct = (T, len, osf, window, wave kind, index mod 8)")
    assumptions = COMMON_ASSUME + ["NEON kernels are modelled from the source and proved, not executed (x86-64 host)",
                                   "the ulp bound is checked, not proved; FMA contraction makes AVX differ from the unfused model"]
    n_quick = 24
    n_thorough = 400

    def run(self, rng, histories=None, have_model=True):
        import struct
        from fractions import Fraction
        viols, disag, notes = [], [], []
        distinct = set()
        nq = 0
        samples = []
        cfgs = []
        for i in range(self.n):
            ty = rng.choice(["f64", "f32"])
            ln = rng.choice([8, 16, 24, 32, 64, 128, 256] if self.tier == "quick" else [8, 16, 24, 32, 64, 128, 256, 512])
            osf = rng.choice([1, 2, 3, 16] if ln > 64 else [1, 2, 3, 16, 128])
            fc = rng.choice([0.95, 0.9, 0.5, 0.99])
            win = rng.randint(0, 5)
            cfgs.append((ty, ln, osf, fc, win))
        # both sample types at lengths that cross the unrolling / blocking boundaries of the widest kernels: 8 mod 16, and more
        # than 512 taps (65 and 129 eight-lane vectors)
        for ty, ln, osf in (("f32", 520, 1), ("f32", 1032, 2), ("f64", 520, 1), ("f64", 1032, 1), ("f32", 72, 3), ("f64", 136, 2)):
            cfgs.append((ty, ln, osf, rng.choice([0.95, 0.9]), rng.randint(0, 5)))
        kinds = ["scalar", "avx", "sse"]
        # 1. tables
        lines = []
        for (ty, ln, osf, fc, win) in cfgs:
            for kd in kinds:
                lines.append(f"tab {ty} {kd} {ln} {osf} {hx32(fc)} {win}")
        out, rc = run_lines([build.WORKER, "kern"], lines)
        tabs = {}
        for ln_, o in zip(lines, out):
            tabs[ln_] = o
        mlines = [f"ktab {ty} {ln} {osf} {hx32(fc)} {win}" for (ty, ln, osf, fc, win) in cfgs] if have_model else []
        mout, _ = run_lines([build.DRIVER], mlines) if mlines else ([], 0)
        unavailable = set()

        def dec(tok, ty):
            return proto.unhx32(tok) if ty == "f32" else proto.unhx(tok)
        tables = {}
        for ci, (ty, ln, osf, fc, win) in enumerate(cfgs):
            key = f"{ty} {{}} {ln} {osf} {hx32(fc)} {win}"
            ts = {}
            for kd in kinds:
                o = tabs.get("tab " + key.format(kd), "missing")
                if o == "unavailable":
                    unavailable.add(kd)
                    continue
                ts[kd] = o
            if "scalar" not in ts or not ts["scalar"].startswith("t "):
                disag.append({"what": "kern-table", "cfg": key, "real": str(ts)[:200]})
                continue
            for kd in ts:
                if ts[kd] != ts["scalar"]:
                    viols.append({"property": "C15", "kind": kd, "clause": "table-differs-from-scalar", "calm": True,
                                  "step": 0, "op": "tab " + key.format(kd), "detail": "packed taps read out with unit "
                                  "impulses differ from the scalar table", "ops": [], "meta": {"cfg": key}})
            vals = [dec(x, ty) for x in ts["scalar"][2:].split(",")]
            tables[ci] = vals
            if have_model and ci < len(mout) and mout[ci].startswith("t "):
                mv = [dec(x, ty) for x in mout[ci][2:].split(",")]
                tol = 2e-6 if ty == "f32" else 1e-12
                peak = max(abs(v) for v in vals) or 1.0
                if len(mv) != len(vals) or any(not abs(a - b) <= tol * peak for a, b in zip(vals, mv)):
                    disag.append({"what": "make_sincs-table", "cfg": key, "real": str(vals[:4]), "model": str(mv[:4])})
            nq += 1
        # 2. dot products
        qlines, qmeta = [], []
        for ci, (ty, ln, osf, fc, win) in enumerate(cfgs):
            if ci not in tables:
                continue
            for _ in range(12 if self.tier == "quick" else 40):
                wk = rng.choice(["imp", "int", "rnd", "dyn", "poi", "s32" if ty == "f32" else "s64"])
                index = rng.randint(0, 40)
                wavelen = index + ln + rng.randint(1, 9)
                sub = rng.randrange(osf)
                arg = rng.randint(index, index + ln - 1) if wk == "imp" else rng.randint(0, 10 ** 6)
                spec = f"{wk}:{arg}"
                for kd in kinds:
                    if kd in unavailable:
                        continue
                    qlines.append(f"dot {ty} {kd} {ln} {osf} {hx32(fc)} {win} {spec} {wavelen} {index} {sub}")
                    qmeta.append((ci, kd, spec, wavelen, index, sub))
            # precondition: index + len must be < wave.len()
            for kd in kinds:
                if kd in unavailable:
                    continue
                qlines.append(f"dot {ty} {kd} {ln} {osf} {hx32(fc)} {win} rnd:1 {ln + 3} 3 0")
                qmeta.append((ci, kd, "oob", ln + 3, 3, 0))
        qout, rc = run_lines([build.WORKER, "kern"], qlines)
        # model kernels on the same inputs (table taken from the real crate: exact read-out)
        mq, mqi = [], []
        res = {}
        for li, (meta, o) in enumerate(zip(qmeta, qout)):
            res[(meta[0], meta[2], meta[3], meta[4], meta[5], meta[1])] = o
        for li, (meta, o) in enumerate(zip(qmeta, qout)):
            ci, kd, spec, wavelen, index, sub = meta
            ty, ln, osf, fc, win = cfgs[ci]
            if spec == "oob":
                if o != "panic":
                    viols.append({"property": "C15", "kind": kd, "clause": "missing-precondition-assert", "calm": True,
                                  "step": 0, "op": qlines[li], "detail": o, "ops": [], "meta": {}})
                continue
            if not o.startswith("v "):
                viols.append({"property": "C15", "kind": kd, "clause": "kernel-call-failed", "calm": True, "step": 0,
                              "op": qlines[li], "detail": o, "ops": [], "meta": {}})
                continue
            v = dec(o[2:], ty)
            wave = [kern_wave_value(spec, k, index, ln) for k in range(wavelen)]
            if ty == "f32":
                wave = [struct.unpack("<f", struct.pack("<f", w))[0] if w == w else w for w in wave]
            taps = tables[ci][sub * ln:(sub + 1) * ln]
            if v != v:
                viols.append({"property": "C15", "kind": kd, "clause": "reads-outside-window" if spec.startswith("poi") else "nan-result",
                              "calm": True, "step": 0, "op": qlines[li], "detail": "NaN result", "ops": [], "meta": {}})
                continue
            exact = sum(Fraction(wave[index + k]) * Fraction(taps[k]) for k in range(ln))
            bound = sum(abs(Fraction(wave[index + k]) * Fraction(taps[k])) for k in range(ln))
            eps = 2.0 ** -23 if ty == "f32" else 2.0 ** -52
            # absolute floor: in the subnormal range every operation rounds to a multiple of the smallest subnormal
            tiny = Fraction(2) ** (-149 if ty == "f32" else -1074)
            if abs(Fraction(v) - exact) > Fraction(eps) * (ln + 8) * bound + (ln + 8) * tiny:
                viols.append({"property": "C15", "kind": kd, "clause": "kernel-differs-from-dot-product", "calm": True,
                              "step": 0, "op": qlines[li],
                              "detail": {"got": v, "exact": float(exact), "sum_abs_products": float(bound)},
                              "ops": [], "meta": {}})
                continue
            if spec.startswith("imp") and kd != "scalar":
                so = res.get((ci, spec, wavelen, index, sub, "scalar"))
                if so is not None and so != o:
                    viols.append({"property": "C15", "kind": kd, "clause": "impulse-tap-differs-from-scalar", "calm": True,
                                  "step": 0, "op": qlines[li], "detail": {"simd": o, "scalar": so}, "ops": [], "meta": {}})
            distinct.add((ty, ln, osf, win, spec.split(":")[0], index % 8))
            nq += 1
            if have_model and not spec.startswith("poi"):
                wh = ",".join((hx32(w) if ty == "f32" else hx(w)) for w in wave)
                sh = ",".join((hx32(t) if ty == "f32" else hx(t)) for t in taps)
                mq.append(f"kdot {ty} {kd} {ln} {index} {wh} {sh}")
                mqi.append((li, kd, ty, ln, float(bound)))
            if len(samples) < 4:
                samples.append({"query": qlines[li], "real": o})
        if have_model and mq:
            mo, _ = run_lines([build.DRIVER], mq)
            for (li, kd, ty, ln, bound), m in zip(mqi, mo):
                r = qout[li]
                if kd in ("scalar", "sse"):
                    if m != r:
                        disag.append({"what": "kernel-model-bits", "op": qlines[li], "real": r, "model": m})
                else:
                    a, b = dec(r[2:], ty), dec(m[2:], ty) if m.startswith("v ") else float("nan")
                    eps = 2.0 ** -23 if ty == "f32" else 2.0 ** -52
                    if not abs(a - b) <= eps * (ln + 8) * bound + (ln + 8) * 2.0 ** (-149 if ty == "f32" else -1074):
                        disag.append({"what": "kernel-model-tolerance", "op": qlines[li], "real": r, "model": m})
        cov = {"evaluations": len(qlines) + len(lines), "traces_validated_against_impl": len(mq), "distinct": distinct,
               "dist": {"kernels": kinds, "unavailable": sorted(unavailable), "configs": len(cfgs),
                        "model_bit_exact_checks": len([1 for x in mqi if x[1] in ("scalar", "sse")])},
               "samples": samples}
        # 3. the dispatch: a resampler built by `new()` (make_interpolator picks the kernel for this CPU) against twins
        #    built around each explicit kernel with the effective parameters; same stream within summation-order rounding
        hs = histories if histories is not None else self.dispatch_twins(rng, [k for k in kinds if k not in unavailable])
        sub = Prop.run(self, rng, histories=hs, have_model=have_model)
        viols += sub["violations"]
        disag += sub["disagreements"]
        cov["evaluations"] += sub["coverage"]["evaluations"]
        cov["traces_validated_against_impl"] += sub["coverage"]["traces_validated_against_impl"]
        cov["distinct"] |= sub["coverage"]["distinct"]
        cov["dist"]["dispatch_twin_histories"] = len(hs)
        return {"coverage": cov, "disagreements": disag[:5], "violations": viols[:5], "notes": notes}

    def dispatch_twins(self, rng, kinds):
        hs = []
        for i in range(self.n):
            kind = rng.choice(["sincin", "sincout"])
            ty = rng.choice(["f64", "f32"])
            ratio = rng.choice([0.5, 0.8, 0.25, 44100 / 48000, 1.0, 1.5, 2.0, 48000 / 44100,
                                math.exp(rng.uniform(math.log(1 / 8), math.log(8)))])
            sl = rng.choice([8, 16, 24, 32, 64, 72, 100, 128])
            it = rng.randint(0, 3)
            osf = rng.choice([2, 3, 16, 128])
            fcut = rng.choice([0.95, 0.9, 0.8])
            win = rng.randint(0, 5)
            chunk = rng.choice([17, 64, 100, 256])
            base = f"{ty} {kind} {hx(ratio)} {hx(1.0)} {it} {sl} {osf} {hx32(fcut)} {win} {chunk} 1"
            ops = [f"0 new {base} auto"] + [f"{k + 1} new {base} {kd}" for k, kd in enumerate(kinds)]
            pairs = []
            sg = "r%d" % rng.randint(0, 999)
            for _ in range(rng.randint(2, 5)):
                pairs.append(len(ops))
                for k in range(len(kinds) + 1):
                    ops.append(f"{k} proc - n m {sg} dump")
            hs.append(History(ops, {"cfg": base, "kind": kind, "ty": ty, "feats": ["dispatch", "down" if ratio < 1 else "up"],
                                    "twin_pairs": pairs, "nslots": len(kinds) + 1, "L": 8 * ((sl + 7) // 8)}))
        return hs

    def distinct_key(self, h):
        return (h.meta.get("cfg"),)

    def oracle(self, h):
        out = []
        n = h.meta.get("nslots", 0)
        ty = h.meta.get("ty", "f64")
        eps = 2.0 ** -23 if ty == "f32" else 2.0 ** -52
        for k in h.meta.get("twin_pairs", []):
            obs = h.real[k:k + n]
            if len(obs) < n or "skip" in obs:
                break
            f0 = fields(obs[0])
            for j in range(1, n):
                fj = fields(obs[j])
                if fj["status"] != f0["status"] or fj["g"] != f0["g"]:
                    out.append(viol("C15", h, k + j, SlotInfo(h.ops[0]), "dispatched-resampler-differs-from-explicit-kernel:counts",
                                    {"auto": obs[0][:160], "explicit": obs[j][:160]}))
                    return out
                if not f0["d"] or not fj["d"]:
                    continue
                a, b = proto.decode_dump(f0["d"][0], ty), proto.decode_dump(fj["d"][0], ty)
                if a is None or b is None or len(a) != len(b):
                    continue
                peak = max([1.0] + [abs(x) for x in a])
                tol = eps * 16 * (h.meta.get("L", 8) + 8) * peak
                for q, (x, y) in enumerate(zip(a, b)):
                    if not abs(x - y) <= tol:
                        out.append(viol("C15", h, k + j, SlotInfo(h.ops[0]), "dispatched-resampler-differs-from-explicit-kernel",
                                        {"frame": q, "auto": x, "explicit": y, "explicit_slot": h.ops[j], "tolerance": tol}))
                        return out
        return out


# ------------------------------------------------------------------------------------------ C03 / C04 / C06(stale) shared
def valid_mix(self, rng, n, kinds=gen.ALL, long=False):
    hs = []
    for i in range(n):
        c = rng.random()
        rc = "none" if c < 0.35 else ("calm" if c < 0.7 else "any")
        osf1 = False
        cfg = gen.gen_cfg(rng, kinds=kinds, max_chunk=600, probe=rng.random() < 0.7)
        if cfg.kind in ("sincin", "sincout") and rng.random() < 0.04:
            # constructor-accepted but broken configuration: Cubic/Quadratic with oversampling_factor 1 (finding D12)
            p = cfg.line.split()
            p[4] = str(rng.choice([0, 1]))
            p[6] = "1"
            cfg.line = " ".join(p)
            osf1 = True
        h = gen.gen_valid_history(rng, cfg, rng.randint(3, 60 if long else 36), ratio_changes=rc,
                                  masks=rng.choice(["none", "const", "vary"]))
        h.meta["osf1_poly"] = osf1
        hs.append(h)
        if cfg.kind in gen.ASYNC and cfg.maxrel > 1.0 and not osf1 and rng.random() < 0.35:
            # reset / chunk-size change while the ratio differs from the construction ratio, then several calls:
            # every size the resampler recomputes at that point must fit the ratio it continues with
            ops = [cfg.new(0)] + ["0 proc - n m i"] * rng.randint(0, 3)
            feats = set()
            for _ in range(rng.randint(1, 3)):
                calm = cfg.kind in ("fastin", "sincin") or rng.random() < 0.5
                r, rel = gen.in_range_ratio(rng, cfg, calm=calm)
                ramp = rng.choice([0, 1])
                ops.append(f"0 ratio {hx(r)} {ramp}")
                feats.add("ratio-ramp" if ramp else "ratio-step")
                ops += ["0 proc - n m i"] * rng.randint(0, 2)
            if cfg.kind in ("sincin", "sincout") and rng.random() < 0.5:
                ops.append(f"0 chunk {rng.randint(1, cfg.chunk)}")
                feats.add("chunk")
            else:
                ops.append("0 reset")
                feats.add("reset")
            ops += ["0 proc - n m i"] * rng.randint(2, 5)
            hs.append(History(ops, {"cfg": cfg.line, "kind": cfg.kind, "ty": cfg.ty, "feats": sorted(feats),
                                    "osf1_poly": False}))
    return hs


@register
class C03(Prop):
    pid = "C03"
    rule = ("valid histories only (buffers >= advertised sizes, in-range stepped and ramped ratio changes, valid chunk-size "
            "changes, partial/flush calls, wrappers, resets, masks) on all seven types x {f32,f64}, built with debug assertions "
            "and overflow checks so that an out-of-range unchecked access aborts: every call must return Ok and the worker "
            "must survive; the model must predict every crash of the real code at the same step (correspondence). "
            "35% constant-ratio, 35% calm, 30% arbitrary in-range ratio schedules. distinct = (config, feature set); "
            "non-trivial = >= 1 ratio or chunk change, or a masked or partial call")
    assumptions = COMMON_ASSUME + ["safety inside realfft/rustfft is outside the model",
                                   "fixed-input types under non-calm ratio schedules are the recorded findings D3/D4 "
                                   "(witness class evaluated per history, model must predict the same failure)"]
    n_quick = 260
    n_thorough = 12000

    def scenarios(self, rng):
        return valid_mix(self, rng, self.n)

    def nontrivial(self, h):
        return bool(set(h.meta.get("feats", [])) & {"ratio-ramp", "ratio-step", "chunk", "part", "wrap"})

    def oracle(self, h):
        out = []
        for k, slot, name, t, fr, fm, info, gb in walk(h):
            if fr is None:
                continue
            st = fr["status"]
            if st == "skip":
                break
            if name == "new":
                if st != "ok":
                    out.append(viol("C03", h, k, info, "constructor:" + st.split(" ")[0], {"got": h.real[k][:200]}))
                    break
                continue
            if st.startswith("ok"):
                continue
            clause = st.split(" ")[0] if st in ("panic", "abort") else "err:" + (st.split(" ")[1] if " " in st else st)
            v = viol("C03", h, k, info, clause, {"got": h.real[k][:200]},
                     model_same=(fm is not None and fm["status"] == st))
            if info is not None and info.kind == "sincin" and info.p[-1] == "rprobe" and info.p[3] in ("1", "2"):
                v["class"] = "sincin:user-interpolator-len-below-3"       # witness class of finding D18
            if info is not None and info.kind == "sincout" and info.p[-1] == "rprobe" and info.p[3] in ("1", "2", "3"):
                v["class"] = "sincout:user-interpolator-len-below-4"      # witness class of finding D20
            if fm is not None and fm.get("site") and "position diverges" in fm["site"]:
                # the model's stepping loop ran to its idle fuel: no active channel and a position that moves away from
                # end_idx (witness class of finding D17)
                v["class"] = "fixed-in:diverging-idle-loop"
            out.append(v)
            break
        return out


@register
class C04(Prop):
    pid = "C04"
    rule = ("same valid histories as C03; at every step input_frames_next <= input_frames_max and output_frames_next <= "
            "output_frames_max; every Ok processing call returns in == input_frames_next() read before the call, out <= "
            "output_frames_next() (== for fixed-output and synchronous types), writes exactly `out` frames (sentinel-filled "
            "buffers) and, with allocate-sized buffers, never fails. distinct = (config, feature set)")
    assumptions = COMMON_ASSUME
    n_quick = 260
    n_thorough = 12000

    def scenarios(self, rng):
        hs = valid_mix(self, rng, self.n)
        # "consumes exactly input_frames_next() frames": twins fed the same signal, slot 0 through buffers that are longer
        # than needed (the frames beyond the reported count are the true next frames of the signal, handed over again by
        # the next call), slot 1 through exact-length buffers; outputs and counts must be bit-identical
        for i in range(max(8, self.n // 4)):
            cfg = gen.gen_cfg(rng, max_chunk=400, probe=rng.random() < 0.5)
            sg = rng.choice(["i", "r%d" % rng.randint(0, 999)])
            ops = [cfg.new(0), cfg.new(1)]
            pairs = []
            dynpairs = []
            for _ in range(rng.randint(3, 14)):
                c = rng.random()
                if c < 0.12 and cfg.kind in gen.ASYNC and cfg.maxrel > 1:
                    r, rel = gen.in_range_ratio(rng, cfg, calm=True)
                    ramp = rng.choice([0, 1])
                    ops += [f"0 ratio {hx(r)} {ramp}", f"1 ratio {hx(r)} {ramp}"]
                elif c < 0.2 and cfg.kind in ("sincin", "sincout"):
                    n = rng.randint(1, cfg.chunk)
                    ops += [f"0 chunk {n}", f"1 chunk {n}"]
                elif c < 0.3:
                    # the advertised counts read through `&dyn VecResampler` are the same advertised counts
                    dynpairs.append(len(ops))
                    ops += ["0 get dyn", "0 get"]
                else:
                    big = rng.choice(["n+1", "n+%d" % rng.randint(2, 700), "m", "m+%d" % rng.randint(1, 2000)])
                    pairs.append(len(ops))
                    ops += [f"0 proc - {big} m {sg}", f"1 proc - n m {sg}"]
            hs.append(History(ops, {"cfg": cfg.line, "kind": cfg.kind, "ty": cfg.ty, "feats": ["oversized-twin", "part"],
                                    "twin_pairs": pairs, "dyn_pairs": dynpairs}))
        # sizes where chunk*ratio (fixed input) / chunk/ratio (fixed output) is an exact integer for a decimal ratio (the size
        # estimates sit on a floor/ceil boundary): a call given EXACTLY the advertised sizes must be accepted
        for kind in gen.ASYNC:
            for num, den in [(1001, 1000), (1003, 1000), (999, 1000), (13, 10), (11, 10), (7, 10), (441, 160), (3, 10)]:
                unit = den if kind.endswith("in") else num
                chunk = unit * rng.randint(1, max(1, 2000 // unit))
                cfg = gen.gen_cfg(rng, kinds=[kind], max_chunk=4096, nch=1, sinc_lens=[8, 16])
                p = cfg.line.split()
                p[2], p[3] = hx(1.0 if num > 1000 or num == 999 else num / den), hx(2.0)
                p[5 if kind.startswith("fast") else 9] = str(chunk)
                cfg.line = " ".join(p)
                ops = [cfg.new(0), "0 get", "0 proc - n n i"]
                if num > 1000 or num == 999:
                    ops += [f"0 rel {hx(num / den)} 0", "0 get", "0 proc - n n i", "0 proc - n n i"]
                hs.append(History(ops, {"cfg": cfg.line, "kind": kind, "ty": cfg.ty, "feats": ["integer-product-size", "ratio-step"],
                                        "all_valid": True}))
        # a rejected call (wrong number of output channels: refused whatever sizes are currently asked for) consumes and
        # produces nothing: every promise must hold unchanged for the calls that follow it -- every type, twice
        for i in range(2 * len(gen.ALL)):
            cfg = gen.gen_cfg(rng, kinds=[gen.ALL[i % len(gen.ALL)]], max_chunk=600, probe=rng.random() < 0.7)
            h = gen.gen_valid_history(rng, cfg, rng.randint(6, 30), ratio_changes="calm", masks=rng.choice(["none", "const"]))
            for _ in range(rng.randint(1, 3)):
                h.ops.insert(rng.randint(1, len(h.ops)), f"0 proc - n m i oc={cfg.nch + 1}")
                h.ops.insert(rng.randint(1, len(h.ops)), "0 get")
            h.meta["feats"] = sorted(set(h.meta["feats"]) | {"rejected-call"})
            hs.append(h)
        # a REJECTED ratio change (absolute or relative, stepped or ramped, beyond the upper or the lower bound) changes
        # nothing: the advertised counts read after it obey the bounds and buffers of the advertised sizes are accepted --
        # every asynchronous type x {above, below} x {step, ramp}, absolute and relative alternating (stored change C04j:
        # the target ratio written before the range test)
        for kind in gen.ASYNC:
            for j in range(4):
                cfg = gen.gen_cfg(rng, kinds=[kind], max_chunk=600, probe=rng.random() < 0.5)
                f = cfg.maxrel * rng.choice([1.5, 4.0, 64.0])
                if j % 2:
                    f = 1 / f
                ramp = j // 2
                bad = f"0 rel {hx(f)} {ramp}" if rng.random() < 0.5 else f"0 ratio {hx(cfg.ratio * f)} {ramp}"
                ops = [cfg.new(0), "0 get", "0 proc - n m i", bad, "0 get", "0 proc - n m i", "0 get", "0 proc - n m i",
                       bad, "0 get dyn", "0 proc - n m i"]
                hs.append(History(ops, {"cfg": cfg.line, "kind": kind, "ty": cfg.ty,
                                        "feats": ["rejected-setter", "ratio-step"], "all_valid": True}))
        # the max getters are promises for the whole life: go to the low end of the permitted range, read them, go to the high
        # end (stepped or ramped), read next; failures of the fixed-input types on such schedules are the findings D3/D4
        for i in range(max(8, self.n // 5)):
            cfg = gen.gen_cfg(rng, kinds=gen.ASYNC, max_chunk=4096, probe=True)
            if cfg.maxrel <= 1:
                continue
            if rng.random() < 0.5 and not (cfg.ratio > 16 or cfg.ratio < 1 / 16):
                # long calls: the +10 frame margin of the estimates is small against chunk * (ratio difference)
                p = cfg.line.split()
                ci = 5 if cfg.kind.startswith("fast") else 9
                p[ci] = str(rng.choice([512, 1024, 2048, 4096]))
                cfg.line = " ".join(p)
            lo = hx((1 / cfg.maxrel) * (1 + 1e-9))
            hi = hx(cfg.maxrel * (1 - 1e-9))
            ops = [cfg.new(0)] + ["0 proc - n m i"] * rng.randint(0, 2)
            ops += [f"0 rel {lo} {rng.choice([0, 1])}", "0 get"] + ["0 proc - n m i"] * rng.randint(0, 2)
            ops += [f"0 rel {hi} {rng.choice([0, 1])}", "0 get"] + ["0 proc - n m i"] * rng.randint(1, 3)
            ops += [f"0 rel {lo} {rng.choice([0, 1])}", "0 get"] + ["0 proc - n m i"] * rng.randint(1, 3)
            hs.append(History(ops, {"cfg": cfg.line, "kind": cfg.kind, "ty": cfg.ty, "feats": ["range-sweep", "ratio-step"]}))
        return hs

    def nontrivial(self, h):
        return bool(set(h.meta.get("feats", [])) & {"ratio-ramp", "ratio-step", "chunk", "part"})

    def oracle(self, h):
        out = []
        infos = {}
        life = {}
        mg = {}          # model getters per slot after its last op
        for k in h.meta.get("twin_pairs", []):
            ra, rb = h.real[k], h.real[k + 1]
            if "skip" in (ra, rb):
                break
            fa, fb = fields(ra), fields(rb)
            if fa["status"] != fb["status"] or fa["g"] != fb["g"] or fa["d"] != fb["d"]:
                out.append(viol("C04", h, k, SlotInfo(h.ops[0]), "frames-beyond-reported-count-influence-the-output",
                                {"oversized": ra[:200], "exact": rb[:200]}))
                return out
        for k in h.meta.get("dyn_pairs", []):
            ra, rb = h.real[k], h.real[k + 1]
            if "skip" in (ra, rb):
                break
            if fields(ra)["g"] != fields(rb)["g"]:
                out.append(viol("C04", h, k, SlotInfo(h.ops[0]), "wrapper-trait-advertises-other-counts",
                                {"through_dyn": ra[:160], "direct": rb[:160]}))
                return out
        for k, slot, name, t, fr, fm, info, gb in walk(h):
            if fr is None or info is None:
                continue
            st = fr["status"]
            if st in ("skip", "panic", "abort"):
                break
            g = fr["g"]
            ms = (fm is not None and fm["g"] == g)
            mg_before = dict(mg)
            if fm is not None and fm.get("g") is not None:
                mg[slot] = fm["g"]
            if name == "new" or name == "reset":
                life[slot] = None
            if g is not None:
                # buffers allocated at ANY earlier point of the instance's life (sized by the max getters of that moment) must
                # still be sufficient now: next(now) <= max(any earlier time)
                lm = life.get(slot)
                if lm is not None and (g[0] > lm[0] or g[2] > lm[1]):
                    out.append(viol("C04", h, k, info, "next-exceeds-an-earlier-max",
                                    {"getters": g, "smallest_max_so_far": lm}, model_same=ms))
                    break
                life[slot] = (g[1], g[3]) if lm is None else (min(lm[0], g[1]), min(lm[1], g[3]))
                if g[0] > g[1]:
                    out.append(viol("C04", h, k, info, "in-next-exceeds-max", {"getters": g}, model_same=ms))
                    break
                if g[2] > g[3]:
                    out.append(viol("C04", h, k, info, "out-next-exceeds-max", {"getters": g}, model_same=ms))
                    break
            if name == "proc" and st.startswith("err") and h.meta.get("all_valid"):
                # buffers of exactly the advertised sizes were refused
                out.append(viol("C04", h, k, info, "advertised-sizes-refused", {"got": st, "getters_before": gb},
                                model_same=(fm is not None and fm["status"] == st)))
                break
            if name in ("proc", "part") and st.startswith("ok") and gb is not None:
                a = st.split()
                nin, nout = int(a[1]), int(a[2])
                if nin != gb[0]:
                    out.append(viol("C04", h, k, info, "consumed-differs-from-next", {"in": nin, "next": gb[0]}))
                    break
                if nout > gb[2]:
                    # "the model predicts the same failure" = same counts AND the model advertised the same next before the call
                    # (a change that only alters what the code ADVERTISES is not the known overshoot of D3/D4)
                    same = fm is not None and fm["status"] == st and mg_before.get(slot) == gb
                    out.append(viol("C04", h, k, info, "out-exceeds-next", {"out": nout, "next": gb[2]}, model_same=same))
                    break
                if info.kind in ("fastout", "sincout", "fftin", "fftout", "fftio") and nout != gb[2]:
                    out.append(viol("C04", h, k, info, "out-differs-from-next", {"out": nout, "next": gb[2]}))
                    break
                if fr["u"] == "0":
                    out.append(viol("C04", h, k, info, "wrote-beyond-reported-count", {"obs": h.real[k][:200]}))
                    break
                if fr["u"] == "2":
                    out.append(viol("C04", h, k, info, "reported-frames-never-written", {"obs": h.real[k][:200]}))
                    break
            if name in ("procw", "partw") and st.startswith("ok") and gb is not None:
                lens = [int(x) for x in st.split()[1].split(",")] if len(st.split()) > 1 else []
                if any(l > gb[2] for l in lens):
                    out.append(viol("C04", h, k, info, "wrapper-returned-more-than-next", {"lens": lens, "next": gb[2]}))
                    break
        return out


# ------------------------------------------------------------------------------------------ C07
def fft_sizes(ri, ro, wanted, by_output):
    g = math.gcd(ri, ro)
    minchunk = (ro if by_output else ri) // g
    k = max(1, -(-wanted // minchunk))
    return k * ri // g, k * ro // g


@register
class C07(Prop):
    pid = "C07"
    rule = ("constant-ratio streams on all seven types: many processing calls (quick: up to 400 per history, thorough: up to "
            "20000, including thousands of 1-frame chunks), random chunk-size schedules on the sinc types, partial and wrapper "
            "calls mixed in; after every call |r*total_in - total_out| must stay within the constant of the statement "
            "(and within the tighter constant of the theorem), FFT types: 0 <= total_in*rate_out - total_out*rate_in < one "
            "block, == 0 for FftFixedInOut, whose input size is the least admissible size >= the request. "
            "distinct = (config, chunk schedule class)")
    assumptions = COMMON_ASSUME + ["accumulated f64 rounding of idx += t over very long streams is measured, not proved"]
    n_quick = 120
    n_thorough = 1200

    def scenarios(self, rng):
        hs = []
        for i in range(self.n):
            small = rng.random() < 0.4
            cfg = gen.gen_cfg(rng, max_chunk=(8 if small else 300), probe=True)
            nops = rng.randint(40, 400) if self.tier == "quick" else rng.randint(200, 20000 if small else 3000)
            if self.tier != "quick" and cfg.kind in gen.ASYNC:
                # keep the model's work per history bounded (frames per call x taps x channels x calls <= ~2e9)
                per_call = max(1.0, cfg.chunk * (cfg.ratio if cfg.kind.endswith("in") else 1.0)) * cfg.L * cfg.nch
                nops = max(200, min(nops, int(2e9 / per_call)))
            # frame accounting only: the model's FFT data plane is switched off for these long streams (`ctl`)
            ops = [cfg.new(0) + (" ctl" if cfg.kind in gen.FFT else "")]
            feats = set()
            for _ in range(nops):
                c = rng.random()
                if c < 0.08 and cfg.kind in ("sincin", "sincout"):
                    ops.append(f"0 chunk {rng.randint(1, cfg.chunk)}")
                    feats.add("chunk")
                elif c < 0.12:
                    ops.append("0 part - none m z")
                    feats.add("part")
                elif c < 0.14:
                    # a rejected call (wrong number of output channels) takes and gives nothing: it must not show in the accounts
                    ops.append(f"0 proc - n m z oc={cfg.nch + 1}")
                    feats.add("rejected-call")
                elif c < 0.155:
                    # reset(): the accounts start again from zero, exactly like those of a new instance
                    ops.append("0 reset")
                    feats.add("reset")
                else:
                    # the frame accounting must not depend on which channels are active (all-false masks included)
                    mk = "-" if rng.random() < 0.8 else rng.choice(["0" * cfg.nch, gen.rand_mask(rng, cfg.nch)])
                    if mk != "-":
                        feats.add("masked")
                    ops.append(f"0 proc {mk} n {rng.choice(['n', 'm'])} z")
            if small:
                feats.add("tiny-chunks")
            hs.append(History(ops, {"cfg": cfg.line, "kind": cfg.kind, "ty": cfg.ty, "feats": sorted(feats)}))
        # block-size arithmetic of the synchronous types: many (rate pair, request size) combinations, a few calls each
        for i in range(3 * self.n):
            cfg = gen.gen_cfg(rng, kinds=gen.FFT)
            ops = [cfg.new(0) + " ctl"] + ["0 proc - n m z"] * rng.randint(2, 6)
            hs.append(History(ops, {"cfg": cfg.line, "kind": cfg.kind, "ty": cfg.ty, "feats": ["fft-sizes"]}))
        return hs

    def nontrivial(self, h):
        return len(h.ops) > 30 or "fft-sizes" in h.meta.get("feats", [])

    def oracle(self, h):
        from fractions import Fraction
        out = []
        worst = 0.0
        for k, slot, name, t, fr, fm, info, gb in walk(h):
            if fr is None or info is None or not fr["status"].startswith("ok"):
                if fr is not None and fr["status"] in ("panic", "abort", "skip"):
                    break
                continue
            if name not in ("proc", "part"):
                continue
            a = fr["status"].split()
            tin = info.total_in + int(a[1])
            tout = info.total_out + int(a[2])
            if info.kind in gen.ASYNC:
                r = Fraction(info.orig)
                dev = r * tin - tout
                bound = r * (info.L + 1 / r + 3) + 3
                worst = max(worst, float(abs(dev)))
                if abs(dev) > bound:
                    out.append(viol("C07", h, k, info, "frame-accounting-drift",
                                    {"total_in": tin, "total_out": tout, "ratio": info.orig, "deviation": float(dev),
                                     "bound": float(bound)}))
                    break
                # the theorem's constant (exact arithmetic) plus a rounding allowance of 1 frame
                # (L - L/2 rather than L/2: a user interpolator may have an odd length; the read position starts at -(L/2))
                hl = info.L - info.L // 2
                tb = r * (hl + 1 + math.ceil(1 / r)) + 1 if info.kind in ("fastin", "sincin") else r * (hl + 1) + 1
                if dev < -1 or dev > tb + 1:
                    out.append(viol("C07", h, k, info, "outside-theorem-constant",
                                    {"total_in": tin, "total_out": tout, "deviation": float(dev), "theorem_bound": float(tb)}))
                    break
            else:
                ri, ro = info.ri, info.ro
                d = tin * ro - tout * ri
                if info.kind == "fftio":
                    if d != 0:
                        out.append(viol("C07", h, k, info, "fftio-nonzero-difference", {"in": tin, "out": tout}))
                        break
                    g = math.gcd(ri, ro)
                    fi = fr["g"][0]
                    want = info.chunk0
                    if fi % (ri // g) != 0 or fi < want or (fi - ri // g >= max(want, 1)):
                        out.append(viol("C07", h, k, info, "fftio-size-not-least-admissible",
                                        {"fft_in": fi, "requested": want, "unit": ri // g}))
                        break
                else:
                    sub = int(info.p[3])
                    fi, fo = fft_sizes(ri, ro, info.chunk0 // sub, info.kind == "fftout")
                    if d < 0 or d >= fi * ro:
                        out.append(viol("C07", h, k, info, "fft-difference-out-of-range",
                                        {"in": tin, "out": tout, "diff": d, "block": fi * ro}))
                        break
        h.meta["worst_dev"] = worst
        return out


# ------------------------------------------------------------------------------------------ streams from dumps
def streams(h, slots=None):
    """per slot: list over channels of concatenated output frames (floats), from `dump`ed proc/part/procw ops"""
    out = {}
    tys = {}
    for k, slot, name, t, fr, fm, info, gb in walk(h):
        if name == "new" and info is not None:
            out[slot] = None
            tys[slot] = info.ty
            continue
        if fr is None or name not in ("proc", "part", "procw", "partw") or not fr["status"].startswith("ok"):
            continue
        if fr["d"] is None:
            continue
        if out.get(slot) is None:
            out[slot] = [[] for _ in fr["d"]]
        for c, tok in enumerate(fr["d"]):
            v = proto.decode_dump(tok, tys.get(slot, "f64"))
            if v is not None:
                out[slot][c].extend(v)
    return out


def first_mismatch(a, b, tol, per_frame=0.0):
    """first frame where the streams differ by more than (tol + per_frame * (frame number + 2)) * peak"""
    n = min(len(a), len(b))
    peak = max([1.0] + [abs(x) for x in a[:n]])
    for j in range(n):
        if not abs(a[j] - b[j]) <= (tol + per_frame * (j + 2)) * peak:
            return j
    return None


# ------------------------------------------------------------------------------------------ C05
@register
class C05(Prop):
    pid = "C05"
    rule = ("twin streams on the real crate, outputs dumped and concatenated: (a) the same asynchronous resampler with two "
            "different chunk sizes in [1,4096]; (b) FixedIn vs FixedOut of the same algorithm and filter; (c) the sinc types "
            "with a random set_chunk_size schedule against a constant chunking; (d) FftFixedIn / FftFixedOut / FftFixedInOut "
            "with (chunk, sub_chunks) resolving to the same FFT sizes, compared bit for bit; all with the same input signal "
            "(noise, sine, index), f32 and f64, real interpolators and the probe, with exact-size and with longer-than-needed "
            "input buffers. The common prefix must agree to rounding. "
            "distinct = (kind pair, config, chunk pair); non-trivial = the two chunkings differ")
    assumptions = COMMON_ASSUME + ["position arithmetic is re-associated by the carry between chunks: streams are compared "
                                   "with a tolerance of 1e-9 (f64) / 4e-6 (f32, 32 ulp) times the peak; FFT streams bit for bit"]
    n_quick = 110
    n_thorough = 2500

    def scenarios(self, rng):
        hs = []
        for i in range(self.n):
            c = rng.random()
            total = rng.randint(300, 3000 if self.tier == "quick" else 20000)
            sig = rng.choice(["r%d" % rng.randint(0, 999), "s%s" % hx(rng.uniform(0.001, 0.2)), "i"])
            if c < 0.6:
                kind = rng.choice(gen.ASYNC)
                cfg = gen.gen_cfg(rng, kinds=[kind], nch=rng.choice([1, 2]), probe=rng.random() < 0.4, max_chunk=4096,
                                  sinc_lens=[16, 32, 64, 128])
                p = cfg.line.split()
                ci = 5 if kind.startswith("fast") else 9
                ca = int(p[ci])
                cb = rng.choice([1, 2, 3, 7, 16, 64, 100, 255, 1024, 4096, rng.randint(1, 4096)])
                variant = rng.random() < 0.35
                p2 = list(p)
                p2[ci] = str(cb)
                if variant:
                    p2[1] = {"fastin": "fastout", "fastout": "fastin", "sincin": "sincout", "sincout": "sincin"}[kind]
                ops = [f"0 new {' '.join(p)}", f"1 new {' '.join(p2)}"]
                feats = {"variant" if variant else "rechunk"}
                # the ratio decides how many calls are needed: just call until roughly `total` input frames went in
                ratio = cfg.ratio
                for slot, chunk, kd in ((0, ca, p[1]), (1, cb, p2[1])):
                    per = chunk if kd.endswith("in") else max(1, int(chunk / ratio))
                    ncalls = max(2, min(4000, total // max(1, per)))
                    for j in range(ncalls):
                        if kd.startswith("sinc") and rng.random() < 0.1 and slot == 0:
                            ops.append(f"{slot} chunk {rng.randint(1, chunk)}")
                            feats.add("set_chunk_size")
                        insz = rng.choice(["n", "n", "m", "n+5", "m+9"])
                        ops.append(f"{slot} proc - {insz} m {sig} dump")
                if rng.random() < 0.3:
                    # refused calls (wrong number of output channels) in the first stream only
                    first = [k for k, o in enumerate(ops) if o.startswith("0 proc")]
                    for _ in range(2):
                        ops.insert(rng.choice(first), f"0 proc - n m {sig} dump oc={cfg.nch + 1}")
                    feats.add("rejected-call")
                hs.append(History(ops, {"cfg": cfg.line, "kind": kind, "ty": cfg.ty, "feats": sorted(feats),
                                        "pair": (p[1], p2[1]), "chunks": (ca, cb), "fft": False,
                                        "exact": cfg.line.endswith("probe") and sig == "i"}))
                if kind.startswith("sinc") and rng.random() < 0.5:
                    # the same pair at a dyadic ratio with a tiny oversampling factor: instants fall EXACTLY on the fine grid and
                    # on its half points (exact in f64, so the choice made there must not depend on the chunking), and
                    # consecutive frames share a grid point when ratio > factor
                    rr, ff = rng.choice([(2.0, 1), (4.0, 2), (32.0, 16), (8.0, 4), (4.0, 1), (16.0, 2), (0.5, 1), (8.0, 3)])
                    q, q2 = list(p), list(p2)
                    for z in (q, q2):
                        z[2], z[6] = hx(rr), str(ff)
                        z[4] = str(rng.choice([2, 3]))      # Linear / Nearest accept every factor (Cubic/Quadratic need >= 2: D12)
                        z[9] = str(min(int(z[9]), 256))
                    q2[4] = q[4]
                    ops2 = [f"0 new {' '.join(q)}", f"1 new {' '.join(q2)}"]
                    for slot, z in ((0, q), (1, q2)):
                        per = int(z[9]) if z[1].endswith("in") else max(1, int(int(z[9]) / rr))
                        for j in range(max(2, min(600, 1200 // max(1, per)))):
                            ops2.append(f"{slot} proc - n m {sig} dump")
                    hs.append(History(ops2, {"cfg": " ".join(q), "kind": kind, "ty": cfg.ty, "feats": ["grid-ties"],
                                             "pair": (q[1], q2[1]), "chunks": (int(q[9]), int(q2[9])), "fft": False,
                                             "exact": False}))
            else:
                ri, ro = rng.choice([(44100, 48000), (48000, 44100), (2, 3), (3, 2), (147, 160), (16000, 48000), (7, 5), (1, 1)])
                g = math.gcd(ri, ro)
                kmul = rng.choice([1, 2, 3, 5]) if max(ri, ro) // g > 100 else rng.choice([1, 4, 16, 64, 100])
                fi, fo = kmul * ri // g, kmul * ro // g
                ty = rng.choice(["f64", "f32"])
                nch = rng.choice([1, 2])
                s1, s2 = rng.choice([1, 2, 3]), rng.choice([1, 2, 4])
                cin = fi * s1
                if ri // g > 1 and rng.random() < 0.4:
                    # a request SHORTER than one block that still resolves to the same block sizes: input is carried over from
                    # call to call and most calls complete no block or one
                    s1, cin = 1, fi - rng.randint(1, ri // g - 1)
                lines = [f"{ty} fftio {ri} {ro} {fi} {nch}",
                         f"{ty} fftin {ri} {ro} {cin} {s1} {nch}",
                         f"{ty} fftout {ri} {ro} {fo * s2} {s2} {nch}"]
                ops = [f"{k} new {l}" for k, l in enumerate(lines)]
                # inputs are sometimes longer than needed (the documented way to reuse one allocate-sized buffer): the frames
                # behind the consumed ones are the NEXT frames of the stream and must not influence anything
                over = rng.random() < 0.6
                rej = rng.random() < 0.5
                for slot, per in ((0, fi), (1, cin), (2, fi)):
                    for j in range(max(2, min(400, total // per))):
                        insz = rng.choice(["n", "m", f"n+{fi}", f"n+{2 * fi + 3}"]) if over else "n"
                        if rej and rng.random() < 0.1:
                            # a refused call (wrong number of output channels) takes nothing and must leave no trace
                            ops.append(f"{slot} proc - {insz} m {sig} dump oc={nch + 1}")
                        ops.append(f"{slot} proc - {insz} m {sig} dump")
                hs.append(History(ops, {"cfg": lines[1], "kind": "fft", "ty": ty, "feats": ["fft-variants"],
                                        "pair": ("fftio", "fftin", "fftout"), "chunks": (fi, cin, fo * s2), "fft": True}))
        # output chunks SHORTER than the ratio (1-3 frames when up-sampling by 2.2 .. 50): many calls of the fixed-output types
        # need no new input at all, and the fixed-input ones produce bursts; against an ordinary chunking of the same stream
        for kind in gen.ASYNC:
            for ratio in (96000 / 44100, 8.0, 50.0):
                cfg = gen.gen_cfg(rng, kinds=[kind], nch=1, probe=True, sinc_lens=[8, 16, 32], max_chunk=64)
                p = cfg.line.split()
                ci = 5 if kind.startswith("fast") else 9
                p[2], p[3] = hx(ratio), hx(1.0)
                ca, cb = rng.choice([1, 1, 2, 3]), rng.choice([48, 64, 100])
                p2 = list(p)
                p[ci], p2[ci] = str(ca), str(cb)
                if kind.startswith("sinc"):
                    p[4] = p2[4] = str(rng.choice([0, 1, 2]))
                    p[6] = p2[6] = str(rng.choice([16, 128]))
                sig = "r%d" % rng.randint(0, 999)
                total_in = 120 if ratio > 10 else 400
                ops = [f"0 new {' '.join(p)}", f"1 new {' '.join(p2)}"]
                for slot, chunk in ((0, ca), (1, cb)):
                    per = chunk if kind.endswith("in") else max(chunk / ratio, 1e-9)
                    for j in range(max(2, min(6000, int(total_in / per)))):
                        ops.append(f"{slot} proc - n m {sig} dump")
                hs.append(History(ops, {"cfg": " ".join(p), "kind": kind, "ty": cfg.ty, "feats": ["rechunk", "chunk-below-ratio"],
                                        "pair": (kind, kind), "chunks": (ca, cb), "fft": False, "exact": False}))
        return hs

    def distinct_key(self, h):
        return (tuple(h.meta["pair"]), h.meta["cfg"], tuple(h.meta["chunks"]))   # lists after a JSON round trip (replay)

    def nontrivial(self, h):
        return len(set(h.meta["chunks"])) > 1 or h.meta["pair"][0] != h.meta["pair"][1]

    def oracle(self, h):
        out = []
        st = streams(h)
        infos = {}
        for k, slot, name, t, fr, fm, info, gb in walk(h):
            infos[slot] = info
            if fr is not None and fr["status"] in ("panic", "abort"):
                return out     # C03's business
        if any(v is None for v in st.values()):
            return out
        ty = h.meta["ty"]
        if h.meta.get("fft"):
            tol = 0.0
        else:
            # f32: positions are kept in f64 whatever the sample type, so two chunkings hand (nearly) the same fraction to the
            # same f32 blend: measured <= 2 ulp of the peak on the unchanged tree; 32 ulp allowed
            tol = 4e-6 if ty == "f32" else 1e-9
        ref = st["0"]
        per_frame = 0.0
        # Nearest kernels are discontinuous in the evaluation instant: where the exact instant sits on a tie, the
        # rounding of the position legitimately picks either neighbour. Those frames are skipped.
        ties = set()
        i0 = infos.get("0")
        sinc_kind = i0 is not None and i0.kind.startswith("sinc")
        if i0 is not None and i0.kind in gen.ASYNC:
            from fractions import Fraction
            nearest_fast = i0.kind.startswith("fast") and i0.p[2] == "4"
            tt0 = 1 / Fraction(i0.orig)
            # steps that are dyadic rationals of small height are added without any rounding: the position is exact and a
            # grid tie is resolved by the code deterministically, so it must NOT depend on the chunking either
            exact_steps = (tt0.denominator & (tt0.denominator - 1)) == 0 and tt0.denominator <= 2 ** 20 and tt0.numerator < 2 ** 20
            if (nearest_fast or sinc_kind) and not exact_steps:
                tt = 1 / Fraction(i0.orig)
                f_ = int(i0.p[4]) if sinc_kind else 1
                half = Fraction(1, 2) if (sinc_kind and i0.p[2] == "3") else 0
                n_frames = max(len(x) for x in ref) if ref else 0
                for j in range(n_frames):
                    tau = (Fraction(-(i0.L // 2)) + (j + 1) * tt) * f_ + half
                    if abs(tau - round(tau)) < Fraction(1, 10 ** 6):
                        ties.add(j)
            if i0.p[-1] in ("probe", "rprobe"):
                tol = max(tol, 1e-6)     # the probe's integer weights are rough in the sub-filter index
            # "agree to rounding": within one call the position is accumulated by `idx += t` -- up to `steps` roundings of at
            # most ulp(span)/2 each, where span = the input frames one call covers; the two chunkings accumulate them
            # differently.  A unit-amplitude signal moves by at most ~4 per input frame under these interpolators.
            if ty == "f64":
                span = max([inf.g[1] for inf in infos.values() if inf is not None and inf.g] + [1])
                steps = span * max(1.0, float(i0.orig)) + 16
                tol = max(tol, 4.0 * steps * span * 2.0 ** -52)
                # ... and the carry between calls (`last_index = idx - consumed`) keeps what has accumulated: after j output
                # frames the position carries up to j roundings of ulp(span)/2 (same term as in the oracle of C08); over a
                # million frames that is a few 1e-9 input frames
                per_frame = 4.0 * span * 2.0 ** -52
        for slot in sorted(st):
            if slot == "0":
                continue
            for c in range(min(len(ref), len(st[slot]))):
                a_, b_ = list(ref[c]), list(st[slot][c])
                tie_hit = None
                for j in sorted(ties):
                    if j < len(a_) and j < len(b_):
                        peak = max(1.0, abs(a_[j]))
                        if tie_hit is None and not abs(a_[j] - b_[j]) <= tol * peak:
                            tie_hit = j
                        b_[j] = a_[j]
                if tie_hit is not None and sinc_kind and i0.p[2] != "3":
                    out.append({"property": "C05", "kind": h.meta["kind"], "ty": ty, "clause": "streams-differ-at-position-tie",
                                "calm": True, "step": len(h.ops) - 1, "op": h.ops[-1],
                                "detail": {"frame": tie_hit, "channel": c, "slot0": ref[c][tie_hit],
                                           "slot" + slot: st[slot][c][tie_hit], "pair": h.meta["pair"],
                                           "chunks": h.meta["chunks"]},
                                "ops": h.ops, "meta": h.meta, "real": "", "model": None, "model_predicts": True})
                    return out
                j = first_mismatch(a_, b_, tol, per_frame)
                if j is not None:
                    out.append({"property": "C05", "kind": h.meta["kind"], "ty": ty, "clause": "streams-differ", "calm": True,
                                "step": len(h.ops) - 1, "op": h.ops[-1],
                                "detail": {"frame": j, "channel": c, "slot0": ref[c][j], "slot" + slot: st[slot][c][j],
                                           "pair": h.meta["pair"], "chunks": h.meta["chunks"]},
                                "ops": h.ops, "meta": h.meta, "real": "", "model": None, "model_predicts": None})
                    return out
        h.meta["compared"] = min(len(ref[0]), min(len(st[s][0]) for s in st))
        return out


# ------------------------------------------------------------------------------------------ C06
@register
class C06(Prop):
    pid = "C06"
    rule = ("index signal x[n] = n through FastFixedIn/Out (Linear) and SincFixedIn/Out with the linear probe interpolator "
            "(all four blends): the dumped outputs ARE the evaluation instants in global input time (plus a constant). Across "
            "random in-range ratio schedules (stepped and ramped, calm and non-calm) the instants must be strictly increasing, "
            "their spacing must lie between the reciprocals of the old and the new ratio, a stepped change must apply from the "
            "first frame of the next chunk, a ramp must move monotonically and end at 1/new. The model's stale-read flag (reads "
            "beyond the frames loaded) is checked on every call of every history. distinct = (config, schedule); "
            "non-trivial = >= 1 accepted ratio change followed by >= 1 call")
    assumptions = COMMON_ASSUME + ["instants are observed through f64 interpolation of the index signal: spacing tolerance 1e-7 "
                                   "relative", "fixed-input ramps overshoot the interval (finding D11)"]
    n_quick = 160
    n_thorough = 5000

    def scenarios(self, rng):
        hs = []
        for i in range(self.n):
            kind = rng.choice(gen.ASYNC)
            if kind.startswith("fast"):
                cfg = gen.gen_cfg(rng, kinds=[kind], ty="f64", nch=1, max_chunk=300)
                p = cfg.line.split()
                p[4] = "3"
                cfg.line = " ".join(p)
            else:
                cfg = gen.gen_cfg(rng, kinds=[kind], ty="f64", nch=1, max_chunk=300, probe=True, sinc_lens=[8, 16, 32, 64],
                                  interp=rng.choice([0, 1, 2, 3]))
                cfg.line = cfg.line[:-len("probe")] + "lprobe"
            rc = rng.choice(["calm", "any", "any"])
            ops = [cfg.new(0)]
            feats = set()
            for _ in range(rng.randint(4, 30)):
                c = rng.random()
                if c < 0.3 and cfg.maxrel > 1:
                    r, rel = gen.in_range_ratio(rng, cfg, calm=(rc == "calm"))
                    ramp = rng.choice([0, 1])
                    # absolute or relative setter, directly or through `&mut dyn VecResampler`
                    form = f"ratio {hx(r)}" if rng.random() < 0.5 else f"rel {hx(rel)}"
                    ops.append(f"0 {form} {ramp}" + (" dyn" if rng.random() < 0.4 else ""))
                    feats.add("ratio-ramp" if ramp else "ratio-step")
                    if ramp and rng.random() < 0.4:
                        # the same value again, this time WITHOUT ramp, before any frame has been produced: the pending ramp
                        # is cancelled and the next chunk runs at the new ratio from its first frame
                        ops.append(f"0 {form} 0")
                        feats.add("ratio-step")
                elif c < 0.36 and kind.startswith("sinc"):
                    ops.append(f"0 chunk {rng.randint(1, cfg.chunk)}")
                    feats.add("chunk")
                else:
                    ops.append("0 proc - n m i dump")
            hs.append(History(ops, {"cfg": cfg.line, "kind": kind, "ty": "f64", "feats": sorted(feats), "rc": rc}))
        # ramps at a reduced chunk size (sinc types): the ramp must be spread over the CURRENT chunk, and the frames asked
        # for must cover every position the ramp reaches
        for i in range(max(6, self.n // 4)):
            kind = rng.choice(["sincin", "sincout", "sincout"])
            cfg = gen.gen_cfg(rng, kinds=[kind], ty="f64", nch=1, max_chunk=400, probe=True, sinc_lens=[8, 16, 32, 64],
                              interp=rng.choice([0, 1, 2, 3]))
            cfg.line = cfg.line[:-len("probe")] + "lprobe"
            if cfg.maxrel <= 1 or cfg.chunk < 8:
                continue
            ops = [cfg.new(0)] + ["0 proc - n m i dump"] * rng.randint(1, 4)
            ops.append(f"0 chunk {rng.randint(1, max(1, cfg.chunk // 2))}")
            ops += ["0 proc - n m i dump"] * rng.randint(1, 3)
            feats = {"chunk"}
            for _ in range(rng.randint(1, 3)):
                r, rel = gen.in_range_ratio(rng, cfg, calm=(kind == "sincin"))
                ops.append(f"0 ratio {hx(r)} 1")
                feats.add("ratio-ramp")
                ops += ["0 proc - n m i dump"] * rng.randint(1, 3)
            hs.append(History(ops, {"cfg": cfg.line, "kind": kind, "ty": "f64", "feats": sorted(feats),
                                    "rc": "calm" if kind == "sincin" else "any"}))
        # the fixed-output types over the WHOLE permitted range (max relative 10): step to one end, ramp to the other and
        # back, every blend type: the frames asked for must cover every position such a ramp reaches
        combos = [("fastout", None)] + [("sincout", it) for it in range(4)]
        for i in range(max(10, self.n // 8)):
            kind, it = combos[i % len(combos)]
            for _ in range(20):
                if kind == "fastout":
                    cfg = gen.gen_cfg(rng, kinds=[kind], ty="f64", nch=1, max_chunk=96)
                else:
                    cfg = gen.gen_cfg(rng, kinds=[kind], ty="f64", nch=1, max_chunk=96, probe=True, sinc_lens=[8, 16, 32],
                                      interp=it)
                if 0.25 <= cfg.ratio <= 4:
                    break
            else:
                continue
            p = cfg.line.split()
            p[3] = hx(10.0)
            if kind == "fastout":
                p[4] = "3"
            else:
                p[-1] = "lprobe"
            cfg.line, cfg.maxrel = " ".join(p), 10.0
            lo, hi = 0.1 * (1 + 1e-9), 10.0 * (1 - 1e-9)
            a, b = (lo, hi) if i % 2 == 0 else (hi, lo)
            ops = [cfg.new(0)] + ["0 proc - n m i dump"] * 2 + [f"0 rel {hx(a)} 0"] + ["0 proc - n m i dump"] * 2
            ops += [f"0 rel {hx(b)} 1"] + ["0 proc - n m i dump"] * 3 + [f"0 rel {hx(a)} 1"] + ["0 proc - n m i dump"] * 3
            ops += [f"0 rel {hx(rng.uniform(0.2, 5.0))} 1"] + ["0 proc - n m i dump"] * 2
            hs.append(History(ops, {"cfg": cfg.line, "kind": kind, "ty": "f64", "feats": ["ratio-ramp", "ratio-step", "full-range"],
                                    "rc": "any"}))
        # every generic valid history also contributes its stale-read flags
        hs += valid_mix(self, rng, self.n // 2)
        return hs

    def nontrivial(self, h):
        return bool(set(h.meta.get("feats", [])) & {"ratio-ramp", "ratio-step"})

    def oracle(self, h):
        out = []
        prev = None          # last instant of the previous call
        ratio = target = None
        for k, slot, name, t, fr, fm, info, gb in walk(h):
            if fr is None or info is None:
                continue
            if fr["status"] in ("panic", "abort", "skip"):
                break
            # model-level: reads beyond the frames supplied for this call
            if fm is not None and fm.get("s") == "1" and fr["status"].startswith("ok") and name in ("proc", "part", "procw", "partw"):
                v = viol("C06", h, k, info, "stale-read", {"model": h.model[k][-60:]}, model_same=True)
                cls = "other"
                if info.kind == "sincout":
                    it, f_ = int(info.p[2]), int(info.p[4])
                    if (it in (0, 1) and f_ <= 2) or (it == 2 and f_ <= 1):
                        cls = "sincout:integer-position-overshoot"
                if info.kind.startswith("sinc") and info.p[-1] == "rprobe" and info.L % 2 == 1:
                    cls = "sinc:user-interpolator-odd-length"          # witness class of finding D19
                v["class"] = cls
                out.append(v)
                break
            if name == "new":
                ratio = target = info.orig if info.kind in gen.ASYNC else None
                prev = None
                continue
            if "rc" not in h.meta:
                continue
            if name in ("ratio", "rel") and fr["status"] == "ok":
                r = unhx(t[2]) if name == "ratio" else info.orig * unhx(t[2])
                if t[3] != "1":
                    ratio = r
                target = r
                continue
            if name == "reset":
                ratio = target = info.orig
                prev = None
                continue
            if name != "proc" or not fr["status"].startswith("ok") or not fr["d"]:
                continue
            vals = proto.decode_dump(fr["d"][0], "f64")
            t0, t1 = 1.0 / ratio, 1.0 / target
            ramp = ratio != target
            ratio = target
            if not vals:
                continue
            lo, hi = min(t0, t1), max(t0, t1)
            seq = ([prev] if prev is not None else []) + vals
            # instants before time 1 have a blend point (or the probe's cell) in the zero pre-roll, where the index signal
            # has its kink: they are not instants of a linear signal
            for a, b in zip(seq, seq[1:]):
                if a < 1.0:
                    continue
                d = b - a
                tolr = 1e-7 * max(1.0, abs(b))
                # sinc types: is one of the two instants on a tie of the sub-filter grid (finding D16)?
                tie = False
                if info.kind.startswith("sinc"):
                    f_ = int(info.p[4])
                    tie = any(abs(x * f_ - round(x * f_)) < 1e-6 for x in (a, b))
                # sinc Nearest: the instants are quantised to the fine grid (step 1/f) by design: consecutive frames may share
                # a grid point and the spacing is only defined up to one grid step -- but it never goes backwards
                quant = 0.0
                if info.kind.startswith("sinc") and info.p[2] == "3":
                    quant = 1.0 / int(info.p[4])
                    tie = False
                if (quant == 0.0 and not d > 0) or (quant > 0.0 and d < -tolr):
                    v = viol("C06", h, k, info, "instants-not-increasing", {"a": a, "b": b})
                    v["class"] = "sinc:position-tie" if tie else "other"
                    out.append(v)
                    return out
                if d < lo - quant - tolr or d > hi + quant + tolr:
                    v = viol("C06", h, k, info, "spacing-outside-reciprocals",
                             {"spacing": d, "lo": lo, "hi": hi, "ramp": ramp, "t_old": t0, "t_new": t1})
                    v["class"] = ("fixed-in:ramp" if (ramp and info.kind in ("fastin", "sincin")) else
                                  "sinc:position-tie" if tie else "other")
                    out.append(v)
                    return out
            if ramp and len(vals) >= 3 and not (info.kind.startswith("sinc") and info.p[2] == "3"):
                ds = [b - a for a, b in zip(vals, vals[1:]) if a >= 1.0]
                sgn = 1 if t1 >= t0 else -1
                for a, b in zip(ds, ds[1:]):
                    if sgn * (b - a) < -1e-7 * max(1.0, abs(a)):
                        out.append(viol("C06", h, k, info, "ramp-not-monotone", {"spacings": ds[:6]}))
                        return out
            prev = vals[-1]
        return out


def small_fftout_chunk(rng, cfg):
    """FftFixedOut with an output chunk of about a third of one block: the carried-over frames and the blocks needed per call
    change from call to call (0, 1, 0, 1, ...), which is where per-call bookkeeping shows"""
    if cfg.kind != "fftout":
        return cfg
    p = cfg.line.split()
    if cfg.ro // math.gcd(cfg.ri, cfg.ro) < 6 or cfg.ro // math.gcd(cfg.ri, cfg.ro) > 1000:
        cfg.ri, cfg.ro = rng.choice([(44100, 48000), (48000, 44100), (147, 160)])
        p[2], p[3] = str(cfg.ri), str(cfg.ro)
    unit = cfg.ro // math.gcd(cfg.ri, cfg.ro)
    p[4], p[5] = str(max(2, unit // 3 + rng.randint(0, unit // 6))), "1"
    cfg.line, cfg.chunk, cfg.sub = " ".join(p), int(p[4]), 1
    return cfg


# ------------------------------------------------------------------------------------------ C11
@register
class C11(Prop):
    pid = "C11"
    rule = ("slot 0: an n-channel resampler (n in 1..8) with a constant random mask (all-false included), inactive channels "
            "passed as empty slices, sentinel-filled outputs; slot 1: the same n-channel resampler without a mask; slots 2..: n "
            "single-channel resamplers with the same parameters fed channel c's data. Same call history on all. Active channels "
            "of slot 0 must equal slot 1 and the single-channel twins bit for bit, returned counts and getters must be equal, "
            "inactive outputs must stay untouched. All seven types, f32/f64. distinct = (config, mask)")
    assumptions = COMMON_ASSUME
    n_quick = 90
    n_thorough = 2500

    def scenarios(self, rng):
        hs = []
        # every type with an all-false mask and with a single active channel (first / last), then random masks
        forced = [(k, m) for k in gen.ALL for m in ("none", "first", "last")]
        for i in range(self.n + len(forced)):
            nch = rng.randint(1, 8)
            kinds = gen.ALL
            if i < len(forced):
                nch, kinds = rng.randint(2, 4), [forced[i][0]]
            cfg = gen.gen_cfg(rng, kinds=kinds, nch=nch, max_chunk=200, probe=rng.random() < 0.6)
            if i < len(forced):
                cfg = small_fftout_chunk(rng, cfg)
            mask = "".join(rng.choice("01") for _ in range(nch))
            if rng.random() < 0.08:
                mask = "0" * nch
            if i < len(forced):
                mask = {"none": "0" * nch, "first": "1" + "0" * (nch - 1), "last": "0" * (nch - 1) + "1"}[forced[i][1]]
            p = cfg.line.split()
            one = list(p)
            if cfg.kind in ("fastin", "fastout"):
                one[6] = "1"
            elif cfg.kind in ("sincin", "sincout"):
                one[10] = "1"
            else:
                one[-1] = "1"
            ops = [cfg.new(0), cfg.new(1)]
            for c in range(nch):
                ops.append(f"{2 + c} new {' '.join(one)}")
            sg = gen.rand_sig(rng)
            feats = {"mask:" + mask}
            for _ in range(rng.randint(2, 12)):
                r = rng.random()
                if r < 0.6:
                    ops.append(f"0 proc {mask} n m {sg} em")
                    ops.append(f"1 proc - n m {sg}")
                    for c in range(nch):
                        ops.append(f"{2 + c} proc - n m {sg} co={c}")
                elif r < 0.75:
                    # a partial (shorter) chunk: the frames taken from an active channel must not depend on the (empty)
                    # slices handed over for the inactive ones
                    kk = rng.randint(0, 6)
                    ops.append(f"0 part {mask} p{kk} m {sg} em")
                    ops.append(f"1 part - p{kk} m {sg}")
                    for c in range(nch):
                        ops.append(f"{2 + c} part - p{kk} m {sg} co={c}")
                    feats.add("partial")
                elif r < 0.9 and cfg.kind in gen.ASYNC and cfg.maxrel > 1:
                    rr, rel = gen.in_range_ratio(rng, cfg, calm=True)
                    ramp = rng.choice([0, 1])
                    for s in range(2 + nch):
                        ops.append(f"{s} ratio {hx(rr)} {ramp}")
                    feats.add("ratio")
                elif cfg.kind in ("sincin", "sincout"):
                    n = rng.randint(1, cfg.chunk)
                    for s in range(2 + nch):
                        ops.append(f"{s} chunk {n}")
                    feats.add("chunk")
            if cfg.kind in ("fastin", "sincin", "fftin", "fftio") and "0" in mask and "1" in mask[mask.index("0"):] \
                    and rng.random() < 0.7:
                # a MALFORMED call on the masked instance only (an active channel ABOVE an inactive one gets an empty input;
                # types that always need input):
                # it must be refused -- which channels are looked at must not stop at the first inactive one -- and the
                # streams must go on as before
                c_bad = mask.index("0") + 1 + mask[mask.index("0") + 1:].index("1")
                pos = [k for k, o in enumerate(ops) if o.startswith("0 proc")]
                if pos:
                    ops.insert(rng.choice(pos), f"0 proc {mask} n m {sg} si={c_bad}:0")
                    feats.add("malformed-under-mask")
            if i < len(forced) or rng.random() < 0.25:
                # a second stream after reset() on the same instances, this time WITHOUT a mask: every channel is active
                # again and, after the reset, comparable with its single-channel twin
                for s in range(2 + nch):
                    ops.append(f"{s} reset")
                for _ in range(rng.randint(2, 4)):
                    ops.append(f"0 proc - n m {sg}")
                    ops.append(f"1 proc - n m {sg}")
                    for c in range(nch):
                        ops.append(f"{2 + c} proc - n m {sg} co={c}")
                feats.add("unmasked-after-reset")
            hs.append(History(ops, {"cfg": cfg.line, "kind": cfg.kind, "ty": cfg.ty, "feats": sorted(feats),
                                    "mask": mask, "nch": nch}))
        # sinc types at a ratio far above the oversampling factor: consecutive output frames fall on the SAME fine-grid point,
        # whatever is remembered from the previous frame must be per channel
        for i in range(max(8, self.n // 6)):
            nch = rng.randint(2, 4)
            kind = rng.choice(["sincin", "sincout"])
            cfg = gen.gen_cfg(rng, kinds=[kind], nch=nch, max_chunk=64, probe=True)
            p = cfg.line.split()
            p[2] = hx(rng.choice([4.0, 8.0, 16.0, 100.0, 6.5]))
            p[4] = str(rng.choice([2, 3]))
            p[6] = str(rng.choice([1, 2, 3]))
            p[9] = str(min(int(p[9]), 16 if kind == "sincin" else 64))
            cfg.line = " ".join(p)
            mask = "".join(rng.choice("01") for _ in range(nch))
            one = list(p)
            one[10] = "1"
            ops = [cfg.new(0), cfg.new(1)] + [f"{2 + c} new {' '.join(one)}" for c in range(nch)]
            sg = "r%d" % rng.randint(0, 999)
            for _ in range(rng.randint(2, 5)):
                ops.append(f"0 proc {mask} n m {sg} em")
                ops.append(f"1 proc - n m {sg}")
                for c in range(nch):
                    ops.append(f"{2 + c} proc - n m {sg} co={c}")
            hs.append(History(ops, {"cfg": cfg.line, "kind": kind, "ty": cfg.ty, "feats": ["mask:" + mask, "same-grid-point"],
                                    "mask": mask, "nch": nch}))
        # synchronous types, channels that fall exactly silent at DIFFERENT times (bursts aligned with the FFT blocks, the
        # channels alternating): whatever a block of exact zeros lets the per-block unit skip must be decided per channel
        for i in range(2 * len(gen.FFT)):
            kind = gen.FFT[i % len(gen.FFT)]
            nch = rng.randint(2, 3)
            ri, ro = rng.choice([(2, 3), (3, 2), (44100, 48000), (48000, 44100), (1, 2), (7, 5)])
            g = math.gcd(ri, ro)
            kmul = rng.choice([1, 2]) if max(ri, ro) // g > 100 else rng.choice([8, 16, 40])
            fi, fo = kmul * ri // g, kmul * ro // g
            ty = rng.choice(["f64", "f32"])
            if kind == "fftio":
                line, one = f"{ty} fftio {ri} {ro} {fi} {nch}", f"{ty} fftio {ri} {ro} {fi} 1"
            else:
                ch = fi if kind == "fftin" else fo
                line, one = f"{ty} {kind} {ri} {ro} {ch} 1 {nch}", f"{ty} {kind} {ri} {ro} {ch} 1 1"
            mask = "1" * nch if i % 2 == 0 else "".join(rng.choice("01") for _ in range(nch))
            sg = f"b{fi * rng.choice([1, 1, 2])},{rng.randint(0, 999)}"
            ops = [f"0 new {line}", f"1 new {line}"] + [f"{2 + c} new {one}" for c in range(nch)]
            for _ in range(rng.randint(6, 10)):
                ops.append(f"0 proc {mask} n m {sg} em")
                ops.append(f"1 proc - n m {sg}")
                for c in range(nch):
                    ops.append(f"{2 + c} proc - n m {sg} co={c}")
            hs.append(History(ops, {"cfg": line, "kind": kind, "ty": ty, "feats": ["mask:" + mask, "staggered-silence"],
                                    "mask": mask, "nch": nch}))
        return hs

    def distinct_key(self, h):
        return (h.meta["cfg"], h.meta["mask"])

    def nontrivial(self, h):
        return h.meta["nch"] >= 2

    def oracle(self, h):
        out = []
        nch = h.meta["nch"]
        mask = h.meta["mask"]
        group = {}
        infos = {}
        k = 0
        ops = h.ops
        recs = []
        for kk, slot, name, t, fr, fm, info, gb in walk(h):
            infos[slot] = info
            recs.append((kk, slot, name, fr))
            if fr is not None and fr["status"] in ("panic", "abort"):
                return out
        i = 0
        while i < len(recs):
            kk, slot, name, fr = recs[i]
            if name == "proc" and slot == "0" and " si=" in h.ops[kk]:
                # the malformed call: refused, nothing written
                if fr is not None and (not fr["status"].startswith("err InsufficientInputBufferSize") or fr["u"] != "1"):
                    out.append(viol("C11", h, kk, infos["0"], "malformed-masked-call-not-refused", {"got": h.real[kk][:200]}))
                    return out
                i += 1
                continue
            if name == "proc" and slot == "0" and i + 1 + nch < len(recs) + 0:
                grp = recs[i:i + 2 + nch]
                if len(grp) < 2 + nch or any(g[3] is None for g in grp):
                    break
                f0, f1 = grp[0][3], grp[1][3]
                # the mask this call was made with (the unmasked second stream after reset(): every channel active)
                mtok = h.ops[kk].split()[2]
                mask = h.meta["mask"] if mtok != "-" else "1" * nch
                if not (f0["status"].startswith("ok") and f1["status"].startswith("ok")):
                    i += 2 + nch
                    continue
                if f0["status"] != f1["status"] or f0["g"][:5] != f1["g"][:5]:
                    out.append(viol("C11", h, kk, infos["0"], "mask-changes-counts", {"masked": f0["status"], "unmasked": f1["status"]}))
                    return out
                if f0["u"] != "1":
                    out.append(viol("C11", h, kk, infos["0"], "inactive-output-written", {"obs": h.real[kk][:200]}))
                    return out
                for c in range(nch):
                    fc = grp[2 + c][3]
                    if fc["status"] != f1["status"]:
                        out.append(viol("C11", h, kk, infos["0"], "single-channel-counts-differ", {"n": f1["status"], "1": fc["status"]}))
                        return out
                    if f1["d"] and fc["d"] and f1["d"][c] != fc["d"][0]:
                        out.append(viol("C11", h, kk, infos["0"], "channel-depends-on-others",
                                        {"channel": c, "n_channel": f1["d"][c], "single": fc["d"][0]}))
                        return out
                    if mask[c] == "1":
                        if f0["d"][c] != f1["d"][c]:
                            out.append(viol("C11", h, kk, infos["0"], "mask-changes-active-output",
                                            {"channel": c, "masked": f0["d"][c], "unmasked": f1["d"][c]}))
                            return out
                    elif f0["d"][c] != "-":
                        out.append(viol("C11", h, kk, infos["0"], "inactive-channel-has-output", {"channel": c}))
                        return out
                i += 2 + nch
            else:
                i += 1
        return out


# ------------------------------------------------------------------------------------------ C17
@register
class C17(Prop):
    pid = "C17"
    rule = ("twin slots with identical parameters and call history, slot 0 instantiated for f32, slot 1 for f64, all seven "
            "types, valid histories with ratio/chunk changes, masks, partial calls: statuses, returned counts and all getters "
            "must be identical at every step; dumped outputs must agree within (64 + sqrt(table points))*eps_f32*peak (the square root "
            "term for the real sinc tables and the FFT filters, which are built in the sample type). distinct = (config, feature set)")
    assumptions = COMMON_ASSUME + ["the numeric closeness is measured, not proved"]
    n_quick = 120
    n_thorough = 3000

    def scenarios(self, rng):
        hs = []
        for i in range(self.n):
            cfg = gen.gen_cfg(rng, ty="f32", max_chunk=300, probe=rng.random() < 0.3)
            base = gen.gen_valid_history(rng, cfg, rng.randint(3, 20), ratio_changes="calm", masks="const",
                                         dump=True, sig=rng.choice(["r%d" % rng.randint(0, 999), "s%s" % hx(rng.uniform(0.001, 0.2))]))
            line64 = cfg.line.replace("f32", "f64", 1)
            ops = [f"0 new {cfg.line}", f"1 new {line64}"]
            for op in base.ops[1:]:
                ops.append(op)
                ops.append(retarget(op, 1))
            hs.append(History(ops, {"cfg": cfg.line, "kind": cfg.kind, "ty": "f32/f64", "feats": base.meta["feats"]}))
        # every asynchronous type with every blend / polynomial degree once, LONG calls (read positions in the thousands, fine
        # grid positions in the hundred thousands) at a ratio that is not a power of two, full-band noise: position arithmetic
        # narrowed to the sample type shows here and nowhere else
        combos = [(k, d) for k in ("fastin", "fastout") for d in range(5)] + [(k, it) for k in ("sincin", "sincout") for it in range(4)]
        for kind, b in combos:
            ratio = rng.choice([1.2, 48000 / 44100, 0.9, 1.37, 44100 / 48000])
            chunk = rng.choice([1024, 2048, 1500])
            if kind.startswith("fast"):
                line = f"f32 {kind} {hx(ratio)} {hx(1.1)} {b} {chunk} 1"
            else:
                line = f"f32 {kind} {hx(ratio)} {hx(1.1)} {b} 64 128 {hx32(0.9)} {rng.randint(0, 5)} {chunk} 1 auto"
            sg = "r%d" % rng.randint(0, 999)
            ops = [f"0 new {line}", "1 new " + line.replace("f32", "f64", 1)]
            for _ in range(3):
                ops += [f"0 proc - n m {sg} dump", f"1 proc - n m {sg} dump"]
            hs.append(History(ops, {"cfg": line, "kind": kind, "ty": "f32/f64", "feats": ["proc", "long-calls"]}))
        # sizes beyond 2^16: a filter table of 2^17 points and an FFT block of more than 2^15 frames (integers of that size are
        # converted to the sample type when the window, the sinc argument and the FFT normalisation are computed)
        sg = "r%d" % rng.randint(0, 999)
        for line in (f"f32 sincin {hx(1.2)} {hx(1.0)} 0 256 512 {hx32(0.9)} {rng.randint(0, 5)} 64 1 auto",
                     f"f32 fftin 44100 48000 40131 1 1"):
            ops = [f"0 new {line}", "1 new " + line.replace("f32", "f64", 1)]
            for _ in range(2):
                ops += [f"0 proc - n m {sg} dump", f"1 proc - n m {sg} dump"]
            hs.append(History(ops, {"cfg": line, "kind": line.split()[1], "ty": "f32/f64", "feats": ["proc", "sizes-beyond-2^16"]}))
        return hs

    def oracle(self, h):
        out = []
        infos = {}
        for kk, slot, name, t, fr, fm, info, gb in walk(h):
            infos[slot] = info
        k = 2
        while k + 1 < len(h.ops):
            ra, rb = h.real[k], h.real[k + 1]
            if ra in ("skip",) or rb in ("skip",):
                break
            fa, fb = fields(ra), fields(rb)
            if fa["status"] != fb["status"] or fa["g"] != fb["g"]:
                out.append(viol("C17", h, k, infos.get("0"), "control-differs-between-f32-and-f64",
                                {"f32": ra[:160], "f64": rb[:160]}))
                break
            if fa["d"] and fb["d"] and fa["status"].startswith("ok"):
                for c, (da, db) in enumerate(zip(fa["d"], fb["d"])):
                    va, vb = proto.decode_dump(da, "f32"), proto.decode_dump(db, "f64")
                    if va is None or vb is None:
                        continue
                    peak = max([1.0] + [abs(x) for x in vb])
                    # 64 eps for the arithmetic of one output frame; the sinc types build their table in the sample type, and its
                    # normalisation constant is a sum of N = sinc_len x oversampling_factor f32 terms: a common gain error of
                    # the order sqrt(N) eps (measured on the unchanged tree: 38 eps at 64x128, 64 at 128x128, 85 at 512x256)
                    mult = 64.0
                    i0 = infos.get("0")
                    if i0 is not None and i0.kind in ("sincin", "sincout") and i0.p[-1] in ("auto", "scalar", "avx", "sse"):
                        mult += math.sqrt(i0.L * int(i0.p[4]))
                    if i0 is not None and i0.kind in gen.FFT:
                        # the synchronous types build their filter the same way: make_sincs over fft_size_in points in the
                        # sample type (44100 points for 44100 -> 44101: measured 65 eps)
                        sub_ = 1 if i0.kind == "fftio" else int(i0.p[3])
                        mult += math.sqrt(fft_sizes(i0.ri, i0.ro, i0.chunk0 // sub_, i0.kind == "fftout")[0])
                    for j, (x, y) in enumerate(zip(va, vb)):
                        if not abs(x - y) <= mult * 2.0 ** -23 * peak:
                            out.append(viol("C17", h, k, infos.get("0"), "f32-output-far-from-f64",
                                            {"channel": c, "frame": j, "f32": x, "f64": y, "peak": peak}))
                            return out
            k += 2
        return out


# ------------------------------------------------------------------------------------------ C14
@register
class C14(Prop):
    pid = "C14"
    rule = ("unit impulse at a random input frame n through all seven real resampler types (real sinc kernels, all windows, "
            "interpolation types, polynomial degrees, FFT rate pairs), at the construction ratio and (polynomial types) after a "
            "stepped ratio change, random chunk sizes; the energy centroid "
            "of the dumped output stream must be n*ratio + output_delay() within max(1, ratio) + 1 output frames. "
            "distinct = (type, config, n mod 8)")
    assumptions = COMMON_ASSUME + ["that zero-padded FFT multiplication is a linear convolution is assumed about realfft and measured here",
                                   "the sinc types report L/2*ratio instead of the true ratio*(1-1/f)-1 (finding D1)"]
    n_quick = 60
    n_thorough = 1500

    def scenarios(self, rng):
        hs = []
        for i in range(self.n):
            cfg = gen.gen_cfg(rng, ty=rng.choice(["f64", "f64", "f32"]), nch=1, max_chunk=512, probe=False,
                              sinc_lens=[16, 32, 64, 128, 256])
            if cfg.kind in ("sincin", "sincout"):
                cfg.line = cfg.line.rsplit(" ", 1)[0] + " auto"
            if cfg.kind in gen.ASYNC:
                ratio = cfg.ratio
                L = cfg.L
                n = rng.randint(3 * L + 10, 3 * L + 600)
                per_in = cfg.chunk if cfg.kind.endswith("in") else max(1, cfg.chunk / ratio)
                need_in = n + 4 * L + 50 + int(10 / ratio)
            else:
                ratio = cfg.ro / cfg.ri
                n = rng.randint(50, 3000)
                g = math.gcd(cfg.ri, cfg.ro)
                fi, fo = fft_sizes(cfg.ri, cfg.ro, cfg.chunk // (1 if cfg.kind == "fftio" else cfg.sub), cfg.kind == "fftout")
                per_in = fi if cfg.kind == "fftio" else max(1, cfg.chunk if cfg.kind != "fftout" else cfg.chunk / ratio)
                need_in = n + 3 * fi + 100
            pre = []
            if cfg.kind in gen.ASYNC and cfg.kind.startswith("fast") and rng.random() < 0.5:
                # run at a ratio different from the construction ratio (stepped change before the first call: the fresh
                # state makes any in-range jump safe); output_delay() must follow the ratio in force
                p = cfg.line.split()
                p[3] = hx(rng.choice([2.0, 4.0, 8.0]))
                cfg.line = " ".join(p)
                cfg.maxrel = unhx(p[3])
                r1, rel = gen.in_range_ratio(rng, cfg, calm=False)
                pre = [f"0 ratio {hx(r1)} 0"]
                ratio = r1
                if rng.random() < 0.4:
                    # ... and back: reset() must restore the construction ratio, and output_delay() with it
                    pre = [f"0 ratio {hx(r1)} {rng.choice([0, 1])}", "0 reset"]
                    ratio = cfg.ratio
                per_in = cfg.chunk if cfg.kind.endswith("in") else max(1, cfg.chunk / ratio)
                need_in = n + 4 * L + 50 + int(10 / ratio)
            ncalls = int(need_in / per_in) + 3
            if ncalls > 6000:
                continue
            # half of the clips are fed from buffers longer than needed (allowed: only input_frames_next() frames are consumed)
            insz = "n" if rng.random() < 0.5 else rng.choice(["m", "n+%d" % rng.randint(1, 900), "m+%d" % rng.randint(1, 900)])
            ops = [cfg.new(0)] + pre + [f"0 proc - {insz} m k{n} dump"] * ncalls
            fe = ["impulse"] + ([] if insz == "n" else ["oversized-input"])
            if rng.random() < 0.3 and ncalls >= 3:
                # a rejected call in the middle of the clip: what follows must still line up with output_delay()
                # (wrong number of output channels: rejected whatever the sizes currently asked for are)
                ops.insert(len(ops) - rng.randint(1, ncalls - 1), f"0 proc - n m k{n} dump oc=2")
                fe.append("rejected-call")
            hs.append(History(ops, {"cfg": cfg.line, "kind": cfg.kind, "ty": cfg.ty, "feats": fe, "n": n,
                                    "ratio": ratio}))
        # polynomial types: run far from the construction ratio, reset(), then the clip: the delay read after reset() must be
        # the true delay of what follows
        for i in range(6):
            kind = rng.choice(["fastin", "fastout"])
            cfg = gen.gen_cfg(rng, kinds=[kind], ty=rng.choice(["f64", "f32"]), nch=1, max_chunk=512)
            p = cfg.line.split()
            p[2], p[3] = hx(rng.choice([0.5, 1.0, 2.0, 48000 / 44100])), hx(8.0)
            p[5] = str(max(64, int(p[5])))
            cfg.line = " ".join(p)
            cfg.ratio, cfg.maxrel, cfg.chunk = unhx(p[2]), 8.0, int(p[5])
            r1 = cfg.ratio * rng.choice([4.0, 6.0, 0.2, 0.15])
            n = rng.randint(40, 600)
            per_in = cfg.chunk if kind == "fastin" else max(1, cfg.chunk / cfg.ratio)
            ncalls = int((n + 4 * 8 + 50 + int(10 / cfg.ratio)) / per_in) + 3
            pre = [f"0 ratio {hx(r1)} {rng.choice([0, 1])}"] + ["0 proc - n m z"] * rng.randint(0, 2) + ["0 reset"]
            hs.append(History([cfg.new(0)] + pre + [f"0 proc - n m k{n} dump"] * ncalls,
                              {"cfg": cfg.line, "kind": kind, "ty": cfg.ty, "feats": ["impulse", "after-reset"], "n": n,
                               "ratio": cfg.ratio}))
        # FFT types fed chunks smaller than one block, with rejected calls in the middle of the clip
        for i in range(6):
            kind = ["fftin", "fftin", "fftout", "fftin", "fftin", "fftout"][i]
            ri, ro = rng.choice([(44100, 48000), (48000, 44100), (147, 160)])
            ty = rng.choice(["f64", "f32"])
            chunk = rng.choice([24, 32, 48])      # well below one block (147 / 160 frames)
            line = f"{ty} {kind} {ri} {ro} {chunk} 1 1"
            fi, fo = fft_sizes(ri, ro, chunk, kind == "fftout")
            n = rng.randint(400, 2500)
            per_in = chunk if kind == "fftin" else chunk * ri / ro
            ncalls = int((n + 3 * fi + 100) / per_in) + 3
            ops = [f"0 new {line}"] + [f"0 proc - n m k{n} dump"] * ncalls
            for _ in range(2):
                ops.insert(rng.randint(2, max(3, int(n / per_in) - 2)), f"0 proc - n m k{n} dump oc=2")
            hs.append(History(ops, {"cfg": line, "kind": kind, "ty": ty, "feats": ["impulse", "rejected-call", "sub-block-chunks"],
                                    "n": n, "ratio": ro / ri}))
        # the README's end-of-clip recipe on the fixed-input polynomial type: whole chunks through process_into_buffer, the
        # last, shorter chunk through the allocating process_partial, then flushes with None; an event a few frames before the
        # end of the clip must come out where output_delay() says, across the boundaries between those calls
        for i in range(8):
            ty = rng.choice(["f64", "f32"])
            ratio = rng.choice([1.0, 1.2, 0.8, 2.0, 48000 / 44100])
            chunk = rng.choice([32, 64, 100, 128])
            k = rng.randint(2, 5)
            d = rng.randint(1, chunk // 2)
            n = k * chunk + (chunk - d) - 1 - rng.randint(0, 2)
            line = f"{ty} fastin {hx(ratio)} {hx(1.0)} {rng.randint(0, 3)} {chunk} 1"
            ops = [f"0 new {line}"] + [f"0 proc - n m k{n} dump"] * k + [f"0 partw - p{d} k{n} dump"] + [f"0 partw - none k{n} dump"] * 3
            hs.append(History(ops, {"cfg": line, "kind": "fastin", "ty": ty, "feats": ["impulse", "end-of-clip-flush"], "n": n,
                                    "ratio": ratio}))
        # FFT types, request a few frames beyond a whole number of sub-chunks of whole units (each integer division in the
        # block arithmetic drops a different remainder there), up- and down-sampling
        for i in range(8):
            kind = ["fftout", "fftin"][i % 2]
            ri, ro = [(24000, 48000), (48000, 16000), (16000, 48000), (3, 2), (2, 3), (7, 3), (1, 3), (48000, 24000)][i]
            g = math.gcd(ri, ro)
            unit = (ro // g) if kind == "fftout" else (ri // g)
            sub = rng.choice([2, 3, 4])
            chunk = sub * unit * rng.randint(20, 200) + rng.randint(1, sub - 1)
            ty = rng.choice(["f64", "f32"])
            line = f"{ty} {kind} {ri} {ro} {chunk} {sub} 1"
            fi, fo = fft_sizes(ri, ro, chunk // sub, kind == "fftout")
            n = rng.randint(50, 2500)
            per_in = chunk if kind == "fftin" else chunk * ri / ro
            ncalls = int((n + 3 * fi + 100) / per_in) + 3
            hs.append(History([f"0 new {line}"] + [f"0 proc - n m k{n} dump"] * ncalls,
                              {"cfg": line, "kind": kind, "ty": ty, "feats": ["impulse", "sub-chunk-remainder"], "n": n,
                               "ratio": ro / ri}))
        # equal rates (ratio exactly 1) on every synchronous type: the same filter, the same half-block delay
        for kind in gen.FFT:
            ri = ro = rng.choice([1, 48000, 44100])
            chunk = rng.choice([64, 100, 256, 512])
            ty = rng.choice(["f64", "f32"])
            line = f"{ty} fftio {ri} {ro} {chunk} 1" if kind == "fftio" else f"{ty} {kind} {ri} {ro} {chunk} {rng.choice([1, 2])} 1"
            n = rng.randint(50, 1500)
            ncalls = int((n + 3 * chunk + 100) / chunk) + 3
            hs.append(History([f"0 new {line}"] + [f"0 proc - n m k{n} dump"] * ncalls,
                              {"cfg": line, "kind": kind, "ty": ty, "feats": ["impulse", "equal-rates"], "n": n, "ratio": 1.0}))
        # large FFT blocks (small-gcd rate pairs, big chunks): the delay must stay half a block whatever the block length
        for (ri, ro, chunk) in [(44100, 44110, 64), (48000, 44090, 64), (44100, 48000, 8192), (1000, 1001, 5000)][:2 if self.tier == "quick" else 4]:
            kind = rng.choice(gen.FFT)
            ty = rng.choice(["f64", "f32"])
            line = f"{ty} fftio {ri} {ro} {chunk} 1" if kind == "fftio" else f"{ty} {kind} {ri} {ro} {chunk} 1 1"
            fi, fo = fft_sizes(ri, ro, chunk, kind == "fftout")
            n = rng.randint(50, 3000)
            per_in = fi if kind == "fftio" else (chunk if kind == "fftin" else chunk * ri / ro)
            ncalls = int((n + 3 * fi + 100) / per_in) + 3
            hs.append(History([f"0 new {line}"] + [f"0 proc - n m k{n} dump"] * ncalls,
                              {"cfg": line, "kind": kind, "ty": ty, "feats": ["impulse", "large-block"], "n": n, "ratio": ro / ri}))
        return hs

    def distinct_key(self, h):
        return (h.meta["cfg"], h.meta["n"] % 8)

    def oracle(self, h):
        out = []
        st = streams(h)
        y = st.get("0")
        if not y or not y[0]:
            return out
        y = y[0]
        info = None
        delay = None
        for k, slot, name, t, fr, fm, inf, gb in walk(h):
            info = inf
            # the delay a user reads BEFORE feeding the clip (README recipe): after the last constructor / setter / reset
            if fr and fr["g"] and name != "proc":
                delay = fr["g"][4]
            if fr and fr["status"] in ("panic", "abort"):
                return out
            if fr and name == "proc" and fr.get("u") == "2":
                # frames handed back as output that the call never wrote: the clip found by skipping output_delay() frames
                # of the concatenated stream is not the resampled clip
                v = viol("C14", h, k, inf, "stream-contains-frames-never-written", {"obs": h.real[k][:160]})
                v["ops"] = h.ops[:3] + ["… (%d identical calls)" % (len(h.ops) - 1)]
                out.append(v)
                return out
        e = sum(v * v for v in y)
        if e <= 0 or delay is None:
            return out
        cen = sum(j * v * v for j, v in enumerate(y)) / e
        n, ratio = h.meta["n"], h.meta["ratio"]
        want = n * ratio + delay
        tol = max(1.0, ratio) + 1.0
        h.meta["centroid"] = cen
        if abs(cen - want) > tol:
            v = viol("C14", h, len(h.ops) - 1, info, "delay-misreported",
                     {"event_frame": n, "ratio": ratio, "output_delay": delay, "expected_centre": want,
                      "measured_centre": cen, "tolerance": tol})
            v["ops"] = h.ops[:3] + ["… (%d identical calls)" % (len(h.ops) - 1)]
            out.append(v)
        return out


# ------------------------------------------------------------------------------------------ C01 / C02 (tone oracles)
WIN_NAMES = ["blackman", "blackman2", "blackmanHarris", "blackmanHarris2", "hann", "hann2"]
WIN_K = {0: (6.159598046201173, 18.926415097606878, 653.4247430458968),
         1: (9.506235102129398, 79.13120634953742, 1502.2316160588925),
         2: (8.041443677716476, 55.9506779343387, 898.0287985384213),
         3: (13.745202940783823, 121.73532586374934, 5964.163279612051),
         4: (3.3481080887677166, 10.106519434875038, 78.96345249024414),
         5: (5.38751148378734, 29.69451915489501, 184.82117462266237)}
# far-stopband leakage (C01) and stopband rejection (C02) of the statement, in dB, per window code
LEAK_DB = {4: 80, 0: 92, 5: 105, 2: 120, 1: 125, 3: 130}
REJ_DB = {4: 41, 5: 58, 0: 72, 1: 99, 2: 105, 3: 138}
AMP_TOL = {4: 0.01, 5: 0.01, 0: 0.001, 1: 0.001, 2: 0.001, 3: 0.001}


def calc_cutoff(n, w):
    k1, k2, k3 = WIN_K[w]
    return 1.0 / (k1 / n + k2 / n ** 2 + k3 / n ** 3 + 1.0)


def fit_tone(y, omega):
    """least squares y ~ A sin(omega n) + B cos(omega n) + C; returns amplitude, residual rms"""
    n = len(y)
    s = [math.sin(omega * k) for k in range(n)]
    c = [math.cos(omega * k) for k in range(n)]
    # normal equations 3x3
    cols = [s, c, [1.0] * n]
    M = [[sum(a * b for a, b in zip(ci, cj)) for cj in cols] for ci in cols]
    v = [sum(a * b for a, b in zip(ci, y)) for ci in cols]
    # gaussian elimination
    for i in range(3):
        p = max(range(i, 3), key=lambda r: abs(M[r][i]))
        M[i], M[p] = M[p], M[i]
        v[i], v[p] = v[p], v[i]
        if abs(M[i][i]) < 1e-300:
            return None
        for r in range(i + 1, 3):
            f = M[r][i] / M[i][i]
            for cc in range(i, 3):
                M[r][cc] -= f * M[i][cc]
            v[r] -= f * v[i]
    x = [0.0] * 3
    for i in (2, 1, 0):
        x[i] = (v[i] - sum(M[i][j] * x[j] for j in range(i + 1, 3))) / M[i][i]
    res = [yy - (x[0] * a + x[1] * b + x[2]) for yy, a, b in zip(y, s, c)]
    rms = math.sqrt(sum(r * r for r in res) / n)
    return math.hypot(x[0], x[1]), rms


def interp_bound(it, f_cycles, osf):
    """textbook error bound of the blend on a grid of 1/osf input samples for a unit sine of f cycles/sample"""
    w = 2 * math.pi * f_cycles / osf
    return {3: w / 2, 2: w * w / 8, 1: w ** 3 * 0.0642, 0: w ** 4 * 0.0235}[it]


class ToneProp(Prop):
    stop = False
    n_quick = 66
    n_thorough = 600

    def scenarios(self, rng):
        hs = []
        tries = 0
        while len(hs) < self.n and tries < self.n * 20:
            tries += 1
            fam = rng.random()
            ty = "f64" if rng.random() < 0.8 else "f32"
            big32 = len(hs) < 4      # the first four streams: f32, long calls (thousands of input frames per call), high tone
            perwin = None if len(hs) < 4 or len(hs) >= 22 else (len(hs) - 4) % 6    # then three streams per window function
            pwj = (len(hs) - 4) // 6
            # then twelve FFT streams: every type x {whole blocks, two sub-chunks minus one frame} x {exact, longer inputs}
            fftk = len(hs) - 22 if 22 <= len(hs) < 34 else None
            # stopband check only: eight up-sampling streams (images), every blend type, steep windows, tone high in the band
            imgk = len(hs) - 34 if self.stop and 34 <= len(hs) < 42 else None
            # stopband check only: twelve streams sweeping the first percent above the promised stopband edge for the two windows
            # with the tightest bound, requested lengths 65 / 66 / 67 (a single tone can sit in a side-lobe null)
            swk = len(hs) - 42 if self.stop and 42 <= len(hs) < 54 else None
            if big32:
                fam, ty = 0.0, "f32"
            if perwin is not None or imgk is not None or swk is not None:
                fam, ty = 0.0, "f64"
            if fftk is not None:
                fam, ty = 1.0, ("f64" if fftk % 4 else "f32")
            if fam < 0.7:
                kind = rng.choice(["sincin", "sincout"])
                ratio = math.exp(rng.uniform(math.log(1 / 8), math.log(8))) if rng.random() < 0.6 else rng.choice([0.5, 2.0, 48000 / 44100, 44100 / 48000, 1.0, 3.0, 1 / 3])
                sl = rng.choice([64, 72, 100, 128, 136, 200, 256])     # lengths are rounded up to multiples of 8, not of 16
                win = rng.randint(0, 5)
                it = rng.randint(0, 3)
                osf = rng.choice([128, 256, 1024, 2048]) if it in (2, 3) else rng.choice([16, 64, 128, 256])
                if big32:
                    kind = ["sincin", "sincout", "sincout", "sincin"][len(hs)]
                    sl = [72, 136, 104, 200][len(hs)]      # = 8 mod 16: the remainder handling of the widest SIMD kernels
                    win = [4, 5, 4, 5][len(hs)]            # slowly tapering windows: the outermost taps still carry weight
                    ratio = rng.choice([48000 / 44100, 44100 / 48000, 1.0, 0.8])
                    it, osf = rng.choice([0, 1, 2]), 256
                if perwin is not None:
                    # each of the six windows with a short filter, the best interpolation and a tone close to the band edge:
                    # the window's own leakage / rejection figure is what limits the result
                    # (stopband check: requested lengths 129..131, which make_interpolator must round UP to 136)
                    win, sl, it, osf = perwin, (64 if not self.stop else 129 + pwj), 0, 256
                    if not self.stop:
                        # the three streams of a window use the three polynomial blends (fine grids: the blend's own error bound
                        # stays below the window's leakage figure)
                        it, osf = [(0, 256), (1, 256), (2, 2048)][pwj]
                    ratio = rng.choice([1.37, 2.0 + 1 / 7, 1.2]) if not self.stop else rng.choice([0.5, 0.4])
                if swk is not None:
                    kind = ["sincin", "sincout"][swk % 2]
                    win, sl, it, osf, ratio = [3, 1][swk // 6], 65 + swk % 3, 0, 256, 0.5
                if imgk is not None:
                    win, sl = [3, 2, 1, 0][imgk // 2], 128
                    it, osf = [(1, 256), (0, 256), (2, 2048), (3, 128), (1, 128), (0, 64), (3, 64), (1, 256)][imgk]
                    ratio = rng.choice([48000 / 44100, 1.5, 2.0 + 1 / 7, 3.0])
                cc = calc_cutoff(sl, win)
                fcut = cc if rng.random() < 0.6 or imgk is not None or swk is not None else rng.choice([0.9, 0.8, 0.95 * cc])
                fcut = struct_f32(fcut)
                lowmin = min(1.0, ratio)
                halfw = (1 - cc) / lowmin
                chunk = rng.choice([64, 256, 1000, 1024])
                if big32:
                    chunk = 4096
                # the permitted adjustment range must not influence the filter
                maxrel = rng.choice([1.0, 1.0, 1.25, 2.0, 10.0])
                line = f"{ty} {kind} {hx(ratio)} {hx(maxrel)} {it} {sl} {osf} {hx32(fcut)} {win} {chunk} 1 auto"
                if not self.stop:
                    edge = fcut - halfw
                    if edge <= 0.05:
                        continue
                    u = rng.uniform(0.05, 0.98) if not (big32 or perwin is not None) else rng.uniform(0.8, 0.98)
                    f_low = u * edge                      # relative to the lower Nyquist
                    f_in = 0.5 * f_low * lowmin           # cycles per input sample
                else:
                    edge = fcut + halfw                   # relative to the lower Nyquist
                    if ratio < 1:
                        lo, hi = edge * lowmin, 1.0       # relative to the INPUT Nyquist
                        if lo >= 0.995:
                            continue
                        f_in = 0.5 * rng.uniform(lo + 0.002, 0.998)
                        if perwin is not None:
                            # just above the stopband edge, where the first side lobes of the window decide the rejection
                            # (three tones per window, 1.5 % of the input Nyquist apart: a single tone can sit in a null)
                            f_in = 0.5 * min(0.998, lo + 0.003 + 0.015 * pwj + rng.uniform(0, 0.008))
                            if pwj == 0:
                                f_in = 0.5 * min(0.998, lo + 0.0005 + rng.uniform(0, 0.001))     # right at the promised edge
                        if swk is not None:
                            f_in = 0.5 * min(0.998, lo + 0.0004 + 0.0018 * (swk % 6) + rng.uniform(0, 0.0006))
                    else:
                        # upsampling: images of an in-band tone fall beyond the edge when f_cutoff <= calculate_cutoff
                        if fcut > struct_f32(cc):      # (the f32 value calculate_cutoff returns)
                            continue
                        f_in = 0.5 * rng.uniform(0.05 if imgk is None else 0.6, 0.9) * (fcut - halfw if fcut - halfw > 0.1 else 0.1)
                L = sl
                n_in = int(6 * L + 3000 / min(1.0, ratio) / 1.0)
                n_in = min(n_in, 40000)
                per = chunk if kind == "sincin" else max(1, int(chunk / ratio))
                ncalls = n_in // per + 2
                L = 8 * ((sl + 7) // 8)
                meta = {"fam": "sinc", "ratio": ratio, "win": win, "it": it, "osf": osf, "fcut": fcut, "sl": sl,
                        "f_in": f_in, "L": L, "cc": cc}
            else:
                kind = rng.choice(gen.FFT)
                ri, ro = rng.choice([(44100, 48000), (48000, 44100), (48000, 96000), (96000, 48000), (16000, 48000),
                                     (48000, 16000), (2, 3), (3, 2), (1, 1), (96000, 44100), (48000, 32000)])
                if fftk is not None:
                    kind = gen.FFT[fftk % 3]
                    ri, ro = [(48000, 16000), (44100, 48000), (96000, 44100), (3, 2), (48000, 32000), (2, 3),
                              (96000, 48000), (48000, 44100), (16000, 48000), (48000, 16000), (3, 2), (96000, 44100)][fftk]
                    if fftk == 0:
                        ri, ro = 44100, 48000
                    if self.stop and ro >= ri:
                        ri, ro = ro, ri
                g = math.gcd(ri, ro)
                kmul = rng.choice([1, 2, 4]) if max(ri, ro) // g > 100 else rng.choice([64, 128, 256, 512])
                if fftk == 0:
                    kmul = 1
                if self.stop and fftk in (3, 10):
                    # very short blocks (20..28 frames at the lower rate): the built-in cutoff must keep falling with the
                    # block length for the transition band to stay below the new Nyquist frequency
                    kmul = rng.randint(10, 14)
                fi, fo = kmul * ri // g, kmul * ro // g
                ratio = ro / ri
                chunk = fi if kind != "fftout" else fo
                sub = 1
                if kind != "fftio" and (ri // g if kind == "fftin" else ro // g) > 1 and \
                        (rng.random() < 0.5 if fftk is None else (fftk // 3) % 2 == 1):
                    # same block sizes, but a chunk that is NOT a whole number of blocks (two sub-chunks, one frame short): the
                    # number of blocks per call varies and frames are carried over between calls
                    sub, chunk = 2, 2 * chunk - 1
                line = f"{ty} fftio {ri} {ro} {fi} 1" if kind == "fftio" else f"{ty} {kind} {ri} {ro} {chunk} {sub} 1"
                lowmin = min(1.0, ratio)
                cc = calc_cutoff(min(fi, fo), 3)
                if not self.stop:
                    edge = cc - (1 - cc) / 1.0
                    f_in = 0.5 * rng.uniform(0.05, 0.95) * max(0.1, 2 * cc - 1) * lowmin
                else:
                    if ratio >= 1:
                        continue
                    lo = lowmin
                    f_in = 0.5 * rng.uniform(min(0.999, lo + 0.01), 0.999)
                n_in = 8 * fi + int(3000 / lowmin)
                per = fi
                if fftk == 0:
                    # FftFixedIn fed about a quarter of a block per call (the request still resolves to the same block): input
                    # is carried over from call to call; with refused calls in between (below)
                    chunk = per = fi // 4 + rng.randint(0, fi // 8)
                    line = f"{ty} {kind} {ri} {ro} {chunk} {sub} 1"
                ncalls = n_in // per + 4
                L = fi
                meta = {"fam": "fft", "ratio": ratio, "win": 3, "it": None, "osf": None, "fcut": cc, "sl": fi,
                        "f_in": f_in, "L": L, "cc": cc}
            if ncalls > 3000:
                continue
            # half of the streams hand over buffers that are longer than needed (allowed by the API; the frames beyond
            # input_frames_next() are the true next frames of the tone and are handed over again by the next call)
            insz = "n" if rng.random() < 0.5 else rng.choice(["m", "m+%d" % rng.randint(1, 1500), "n+%d" % rng.randint(1, 1500)])
            if fftk is not None:
                insz = "n" if (fftk // 6) % 2 == 0 else ["m+%d" % rng.randint(1, 1500), "n+%d" % rng.randint(1, 1500)][fftk % 2]
            call = f"0 proc - {insz} m s{hx(f_in)} dump"
            feats_extra = [] if insz == "n" else ["oversized-input"]
            if len(hs) % 4 == 3:
                # every fourth stream is run the way an application holding a `Box<dyn VecResampler>` runs it: `process()`
                # through the wrapper trait, which does not report the consumed count -- the caller advances by the wrapper
                # trait's own input_frames_next()
                call = f"0 procw - n s{hx(f_in)} dyn dump"
                feats_extra = ["dyn-wrapper"]
            ops = [f"0 new {line}"] + [call] * ncalls
            if (len(hs) % 5 == 1 or fftk == 0) and ncalls >= 6:
                # a call refused in mid-stream (wrong number of output channels) and simply repeated, as the documentation of
                # process_into_buffer tells callers to do: the stream must go on as if nothing had happened
                for _ in range(2 if fftk != 0 else 1):
                    ops.insert(rng.randint(3, max(4, ncalls // 2)), f"0 proc - n m s{hx(f_in)} dump oc=2")
                feats_extra = feats_extra + ["rejected-call"]
            if meta["fam"] == "sinc" and rng.random() < 0.5:
                # "every way of chunking the stream": change the chunk size mid-stream a few times (and feed more calls,
                # the chunks only get smaller)
                ops += [call] * min(ncalls, 200)
                for _ in range(rng.randint(1, 4)):
                    pos = rng.randint(2, max(3, int(0.5 * len(ops))))
                    ops.insert(pos, f"0 chunk {rng.randint(max(1, chunk // 4), chunk)}")
                feats_extra = feats_extra + ["chunk-schedule"]
            meta.update({"cfg": line, "kind": kind, "ty": ty, "feats": [WIN_NAMES[meta['win']]] + feats_extra})
            hs.append(History(ops, meta))
        return hs

    def distinct_key(self, h):
        return (h.meta["cfg"], round(h.meta["f_in"], 6))

    def run(self, rng, histories=None, have_model=True):
        res = Prop.run(self, rng, histories=histories, have_model=have_model)
        # the Float twin computes the specified polyphase filter in the same precision: an output that differs from it by
        # more than the correspondence tolerance is a concrete input on which the crate is not the specified filter
        keep = []
        for d in res["disagreements"]:
            if d.get("what") == "data-tol":
                res["violations"].append({"property": self.pid, "kind": "sinc", "clause": "output-differs-from-specified-filter",
                                          "calm": True, "step": d.get("step"), "op": d.get("op"),
                                          "detail": {"real": d.get("real"), "model": d.get("model"), "cfg": d.get("cfg")},
                                          "ops": d.get("ops"), "meta": {"cfg": d.get("cfg")}, "model_predicts": False})
            keep.append(d)
        res["disagreements"] = keep
        return res

    def measure(self, h):
        st = streams(h)
        y = st.get("0")
        if not y or not y[0]:
            return None
        y = y[0]
        m = h.meta
        skip = int(3 * m["L"] * m["ratio"]) + 50
        y = y[skip:len(y) - skip // 3]
        if len(y) < 400:
            return None
        y = y[:6000]
        omega = 2 * math.pi * m["f_in"] / m["ratio"]
        return fit_tone(y, omega)


def struct_f32(x):
    import struct
    return struct.unpack("<f", struct.pack("<f", x))[0]


@register
class C01(ToneProp):
    pid = "C01"
    stop = False
    rule = ("a unit sine below the passband edge f_cutoff - (1 - calculate_cutoff(sinc_len, window))/min(1, ratio) (sinc) or the "
            "built-in edge (FFT) through the real SincFixedIn/Out (real kernels, all six windows, sinc_len 64-256, all four "
            "interpolation types, oversampling 16-2048, ratios 1/8..8) and FftFixedIn/Out/InOut, chunked; after the start-up "
            "transient a least-squares fit at the expected output frequency must give amplitude 1 within 1 % (0.1 % for the "
            "Blackman/Blackman-Harris families and FFT) and a residual below max(window far-stopband leakage, 2 x textbook "
            "interpolation bound), f32 to single precision. distinct = (config, tone frequency)")
    assumptions = COMMON_ASSUME + ["the dB/percent magnitudes are numerical facts about the window functions: measured here, not proved"]

    def oracle(self, h):
        out = []
        for r in h.real:
            if r.split(" ")[0] in ("panic", "abort"):
                return out
        r = self.measure(h)
        if r is None:
            return out
        amp, rms = r
        m = h.meta
        info = SlotInfo(h.ops[0])
        f32 = m["ty"] == "f32"
        atol = 0.001 if m["fam"] == "fft" else AMP_TOL[m["win"]]
        leak = 10 ** (-(150 if m["fam"] == "fft" else LEAK_DB[m["win"]]) / 20.0)
        ib = 2 * interp_bound(m["it"], m["f_in"], m["osf"]) if m["fam"] == "sinc" else 0.0
        floor_ = max(leak, ib, 3e-6 if f32 else 1e-13)
        h.meta["amp"] = amp
        h.meta["residual_rms"] = rms
        if abs(amp - 1.0) > atol + floor_ + (1e-5 if f32 else 0):
            out.append(viol("C01", h, len(h.ops) - 1, info, "passband-amplitude",
                            {"amplitude": amp, "tolerance": atol, "f_in": m["f_in"], "ratio": m["ratio"], "window": WIN_NAMES[m["win"]]}))
        elif rms / math.sqrt(0.5) > 4 * floor_ / math.sqrt(0.5) and rms > 4 * floor_:
            out.append(viol("C01", h, len(h.ops) - 1, info, "spurious-content",
                            {"residual_rms": rms, "allowed": floor_, "f_in": m["f_in"], "ratio": m["ratio"],
                             "window": WIN_NAMES[m["win"]], "interp": m["it"], "osf": m["osf"]}))
        for v in out:
            v["ops"] = h.ops[:2] + ["… (%d identical calls)" % (len(h.ops) - 1)]
        return out


@register
class C02(ToneProp):
    pid = "C02"
    stop = True
    rule = ("a unit sine ABOVE the stopband edge f_cutoff + (1 - calculate_cutoff)/min(1, ratio) (relative to the lower Nyquist) "
            "and below the input Nyquist through the real down-sampling sinc resamplers: output RMS must be below the window's "
            "stopband rejection (41/58/72/99/105/138 dB); up-sampling with f_cutoff <= calculate_cutoff: after removing the "
            "legitimate component the residual (images) must be below the same figure or the interpolation bound; FFT "
            "down-sampling: > 100 dB. distinct = (config, tone frequency)")
    assumptions = COMMON_ASSUME + ["the dB magnitudes are numerical facts about the window functions: measured here, not proved"]

    def oracle(self, h):
        out = []
        for r in h.real:
            if r.split(" ")[0] in ("panic", "abort"):
                return out
        m = h.meta
        info = SlotInfo(h.ops[0])
        f32 = m["ty"] == "f32"
        rej_db = 100 if m["fam"] == "fft" else REJ_DB[m["win"]]
        allowed = 10 ** (-rej_db / 20.0)
        if m["ratio"] < 1:
            st = streams(h)
            y = st.get("0")
            if not y or not y[0]:
                return out
            y = y[0]
            skip = int(3 * m["L"] * m["ratio"]) + 50
            y = y[skip:len(y) - skip // 3][:6000]
            if len(y) < 300:
                return out
            mean = sum(y) / len(y)
            rms = math.sqrt(sum((v - mean) ** 2 for v in y) / len(y))
            level = rms / math.sqrt(0.5)
            h.meta["stopband_level_db"] = 20 * math.log10(max(level, 1e-300))
            ib = 2 * interp_bound(m["it"], m["f_in"], m["osf"]) if m["fam"] == "sinc" else 0.0
            if level > max(allowed * 1.12, ib, 3e-6 if f32 else 1e-13):
                out.append(viol("C02", h, len(h.ops) - 1, info, "stopband-leak",
                                {"level_db": h.meta["stopband_level_db"], "required_db": -rej_db, "f_in": m["f_in"],
                                 "ratio": m["ratio"], "window": WIN_NAMES[m["win"]]}))
        else:
            r = self.measure(h)
            if r is None:
                return out
            amp, rms = r
            ib = 2 * interp_bound(m["it"], m["f_in"], m["osf"]) if m["fam"] == "sinc" else 0.0
            level = rms / math.sqrt(0.5)
            h.meta["image_level_db"] = 20 * math.log10(max(level, 1e-300))
            if level > max(allowed * 1.12, 2 * ib, 3e-6 if f32 else 1e-13):
                out.append(viol("C02", h, len(h.ops) - 1, info, "image-leak",
                                {"level_db": h.meta["image_level_db"], "required_db": -rej_db, "f_in": m["f_in"],
                                 "ratio": m["ratio"], "window": WIN_NAMES[m["win"]], "interp": m["it"], "osf": m["osf"]}))
        for v in out:
            v["ops"] = h.ops[:2] + ["… (%d identical calls)" % (len(h.ops) - 1)]
        return out
