"""Per-property scenarios and oracles (evaluated on the *real* observations).

The oracle is the failing-input search of DESIGN.md 2.4 step 4; the deciding artefact of every
property is the Lean theorem list of lean/RubatoProofs/Props/<id>.lean, tied to /repo by the translator
and by the correspondence check (`proto.compare`) that runs on every history generated here.
"""
import collections
import json
import math
import os
import random

from . import build, gen, proto
from .proto import History, hx, hx32, unhx, fields

ROOT = build.ROOT
REGISTRY = {}


def register(cls):
    REGISTRY[cls.pid] = cls
    return cls


# ------------------------------------------------------------------------------------------ walking a history
class SlotInfo:
    def __init__(self, new_line):
        t = new_line.split()
        self.ty = t[2]
        self.kind = t[3]
        self.p = t[4:]
        self.g = None          # getters after the last op
        self.alive = False
        self.ratios = []       # accepted ratio values since (re)start: (value, ramp)
        self.total_in = 0
        self.total_out = 0
        self.calls = 0
        if self.kind in gen.ASYNC:
            self.orig = unhx(self.p[0])
            self.maxrel = unhx(self.p[1])
            self.chunk0 = int(self.p[3]) if self.kind.startswith("fast") else int(self.p[7])
            self.nch = int(self.p[4]) if self.kind.startswith("fast") else int(self.p[8])
            self.L = 8 if self.kind.startswith("fast") else 8 * ((int(self.p[3]) + 7) // 8)
        else:
            self.ri, self.ro = int(self.p[0]), int(self.p[1])
            self.chunk0 = int(self.p[2])
            self.nch = int(self.p[-1])
        self.chunk = self.chunk0
        self.cur_ratio = getattr(self, "orig", None)

    def restart(self):
        self.ratios = []
        self.total_in = 0
        self.total_out = 0
        self.calls = 0
        self.chunk = self.chunk0
        self.cur_ratio = getattr(self, "orig", None)

    def calm(self):
        """calm-schedule predicate for the fixed-input types (DESIGN 3.3): every accepted ratio has the
        ceiling of 1/ratio of the original, and ramps only when at least one frame per call is produced"""
        if self.kind not in ("fastin", "sincin"):
            return True
        c0 = math.ceil(1.0 / self.orig)
        for r, ramp in self.ratios:
            if math.ceil(1.0 / r) != c0:
                return False
            if ramp and self.chunk * min(r, self.orig) < 1.0:
                return False
        return True


def walk(h):
    """yield (k, slot, opname, tokens, real_fields, model_fields, info, g_before)"""
    slots = {}
    for k, op in enumerate(h.ops):
        t = op.split()
        slot, name = t[0], t[1]
        fr = fields(h.real[k]) if k < len(h.real) else None
        fm = fields(h.model[k]) if k < len(h.model) and h.model[k] else None
        if name == "new":
            info = SlotInfo(op)
            slots[slot] = info
            info.alive = fr is not None and fr["status"] == "ok"
            info.g = fr["g"] if fr else None
            yield k, slot, name, t, fr, fm, info, None
            continue
        info = slots.get(slot)
        gb = info.g if info else None
        yield k, slot, name, t, fr, fm, info, gb
        if info is None or fr is None:
            continue
        st = fr["status"]
        if fr["g"] is not None:
            info.g = fr["g"]
        if name in ("ratio", "rel") and st == "ok" and info.kind in gen.ASYNC:
            v = unhx(t[2])
            r = v if name == "ratio" else info.orig * v
            info.ratios.append((r, t[3] == "1"))
            info.cur_ratio = r
        elif name == "chunk" and st == "ok":
            info.chunk = int(t[2])
        elif name == "reset":
            info.restart()
        elif name in ("proc", "part") and st.startswith("ok"):
            a = st.split()
            info.total_in += int(a[1])
            info.total_out += int(a[2])
            info.calls += 1


def viol(pid, h, k, info, clause, detail, model_same=None):
    return {"property": pid, "kind": info.kind if info else "?", "ty": info.ty if info else "?",
            "clause": clause, "calm": info.calm() if info else True, "step": k, "op": h.ops[k],
            "detail": detail, "real": h.real[k][:300], "model": (h.model[k][:300] if h.model else None),
            "model_predicts": model_same, "ops": h.ops[:k + 1], "meta": h.meta}


def match_known(known, pid, v):
    """A violation is a listed finding only if property, resampler kind, failing clause and witness class all
    match and the frozen model predicts the same failure at the same step."""
    for f in known.get("findings", []):
        if f.get("status") != "open" or pid not in f.get("properties", []):
            continue
        if v.get("kind") not in f.get("kinds", []):
            continue
        if v.get("clause") not in f.get("clauses", []):
            continue
        cls = f.get("witness_class")
        if cls == "fixed-in:non-calm-ratio-schedule":
            if v.get("calm", True):
                continue
        elif cls == "sinc:cubic-or-quadratic-with-oversampling-1":
            if not v.get("meta", {}).get("osf1_poly"):
                continue
        elif cls == "any":
            pass
        else:
            if v.get("class") != cls:
                continue
        if f.get("needs_model_prediction", True) and v.get("model_predicts") is False:
            continue
        return f["id"]
    return None


# ------------------------------------------------------------------------------------------ base class
class Prop:
    pid = "C00"
    rule = ""
    assumptions = []
    checker_modules = ["RubatoModel.Async", "RubatoModel.Fft", "RubatoModel.Generated"]
    n_quick = 160
    n_thorough = 4000

    def __init__(self, tier="quick", seed=1, jobs=16):
        self.tier = tier
        self.seed = seed
        self.jobs = jobs
        self.n = self.n_quick if tier == "quick" else self.n_thorough

    # -- to override
    def scenarios(self, rng):
        return []

    def oracle(self, h):
        return []

    def extra(self, rng, cov):
        return [], []

    def distinct_key(self, h):
        return (h.meta.get("cfg"), tuple(h.meta.get("feats", [])))

    def nontrivial(self, h):
        return True

    def corpus(self):
        d = os.path.join(ROOT, "corpus")
        out = []
        if os.path.isdir(d):
            for f in sorted(os.listdir(d)):
                if f.startswith(self.pid + "-") and f.endswith(".json"):
                    j = json.load(open(os.path.join(d, f)))
                    m = dict(j.get("meta", {}))
                    m["corpus"] = f
                    out.append(History(j["ops"], m))
        return out

    def run(self, rng, histories=None, have_model=True):
        hs = histories if histories is not None else (self.corpus() + self.scenarios(rng))
        if have_model:
            proto.run_both(hs, jobs=self.jobs)
        else:
            shards = [hs[i::self.jobs] for i in range(self.jobs)]
            import concurrent.futures
            with concurrent.futures.ThreadPoolExecutor(max_workers=self.jobs) as ex:
                list(ex.map(proto.run_real, [s for s in shards if s]))
            for h in hs:
                h.model = []
        disagreements = []
        violations = []
        dist = collections.Counter()
        distinct = set()
        nops = 0
        for h in hs:
            nops += len(h.ops)
            if have_model:
                d = proto.compare(h)
                if d:
                    d["ops"] = h.ops[:d["step"] + 1]
                    d["cfg"] = h.meta.get("cfg")
                    disagreements.append(d)
            for v in self.oracle(h):
                violations.append(v)
            dist["kind:" + str(h.meta.get("kind"))] += 1
            dist["ty:" + str(h.meta.get("ty"))] += 1
            for f in h.meta.get("feats", []):
                dist["feat:" + f] += 1
            for r in h.real:
                dist["status:" + r.split(" | ")[0].split(" ")[0]] += 1
                if r.startswith("err"):
                    dist["err:" + r.split()[1]] += 1
            if self.nontrivial(h):
                distinct.add(self.distinct_key(h))
        cov = {"evaluations": nops, "traces_validated_against_impl": len(hs) if have_model else 0,
               "distinct": distinct, "dist": dict(dist),
               "samples": [{"ops": h.ops[:12], "real": [r[:120] for r in h.real[:12]]} for h in hs[:3]]}
        notes = []
        ev, en = self.extra(rng, cov)
        violations += ev
        notes += en
        # a disagreement whose real side fails the property is a violation with a replay; otherwise it stays
        # a broken tie (reported as no-failing-input-found unless the oracle found something)
        return {"coverage": cov, "disagreements": disagreements, "violations": violations, "notes": notes}


COMMON_ASSUME = [
    "exact-arithmetic theorems are about the Rat instantiation of the model; f64/f32 rounding is watched by the "
    "bit-exact Float twin and by the oracle, not proved",
    "machine-word overflow is outside the model (sizes < 2^53); the harness builds rubato with overflow checks",
    "assurance of the hand model is bounded by the generated histories of the correspondence check",
]


# ------------------------------------------------------------------------------------------ C08
@register
class C08(Prop):
    pid = "C08"
    rule = ("theorems about the generated Lagrange kernels (all polynomials / all sample vectors); correspondence: "
            "polynomial, index and noise signals through FastFixedIn/Out, f64 and f32, bit-exact against the Float twin; "
            "distinct = (config, degree, signal kind), non-trivial = a polynomial signal of admissible degree was "
            "reproduced at >= 1 fractional position")
    assumptions = COMMON_ASSUME + ["the classical sinusoid error bound is measured (thorough), not proved"]
    n_quick = 120
    n_thorough = 3000
    MAXDEG = {0: 7, 1: 5, 2: 3, 3: 1, 4: 0}

    def scenarios(self, rng):
        hs = []
        for i in range(self.n):
            cfg = gen.gen_cfg(rng, kinds=["fastin", "fastout"], ty="f64" if i % 4 else "f32", max_chunk=300, nch=rng.choice([1, 2]))
            deg = cfg.params["deg"]
            pd = rng.randint(0, self.MAXDEG[deg])
            sig = f"p{pd},{rng.randint(0, 999)}" if rng.random() < 0.7 else rng.choice(["i", "r%d" % rng.randint(0, 999)])
            h = gen.gen_valid_history(rng, cfg, rng.randint(4, 14), ratio_changes="none", masks="none",
                                      wrappers=False, resets=False, partial=False, dump=True, sig=sig)
            h.meta["sig"] = sig
            h.meta["deg"] = deg
            hs.append(h)
        return hs

    def distinct_key(self, h):
        return (h.meta.get("cfg"), h.meta.get("sig", "")[:1])

    def nontrivial(self, h):
        return h.meta.get("checked_frames", 0) > 0

    def oracle(self, h):
        """polynomial input of admissible degree: every output frame whose window lies in real data equals the
        polynomial at the evaluation instant (instants taken from the model-independent recurrence in exact
        arithmetic: tau_j = -4 + j/ratio, constant ratio)."""
        out = []
        sig = h.meta.get("sig", "")
        if not sig.startswith("p"):
            return out
        from fractions import Fraction
        pd, seed = sig[1:].split(",")
        pd, seed = int(pd), int(seed)
        coeffs = [poly_coeff(seed, k) for k in range(pd + 1)]
        checked = 0
        for k, slot, name, t, fr, fm, info, gb in walk(h):
            if name == "new":
                ratio = Fraction(info.orig)
                j = 0
                deg = int(info.p[2])
                lo = {0: 3, 1: 2, 2: 1, 3: 0, 4: 0}[deg]
                continue
            if name != "proc" or not fr["status"].startswith("ok"):
                continue
            vals = proto.decode_dump(fr["d"][0], info.ty) if fr["d"] else None
            if vals is None:
                continue
            for v in vals:
                j += 1
                tau = Fraction(-4) + Fraction(j) / ratio
                fl = math.floor(tau)
                if fl - lo < 0:
                    continue   # window still overlaps the zero pre-roll
                if deg == 4:
                    x = Fraction(fl)
                else:
                    x = tau
                u = x / 64
                exact = sum(Fraction(c) * u ** i for i, c in enumerate(coeffs))
                scale = sum(abs(Fraction(c)) * abs(u) ** i for i, c in enumerate(coeffs)) + 1
                eps = 2.0 ** -20 if info.ty == "f32" else 2.0 ** -44
                # condition of the 8-point formula: coefficients up to 6860/5040 times 8 samples
                if abs(Fraction(v) - exact) > eps * 64 * float(scale) * (1 + abs(float(x))) :
                    out.append(viol("C08", h, k, info, "polynomial-not-reproduced",
                                    {"frame": j, "tau": float(tau), "got": v, "want": float(exact), "poly_degree": pd}))
                    return out
                checked += 1
        h.meta["checked_frames"] = checked
        return out


def poly_coeff(seed, k):
    K1 = 0x9E3779B97F4A7C15
    return (splitmix64(seed ^ ((k * K1) & 0xFFFFFFFFFFFFFFFF)) % 7) - 3


def splitmix64(x):
    M = 0xFFFFFFFFFFFFFFFF
    z = (x + 0x9E3779B97F4A7C15) & M
    z = ((z ^ (z >> 30)) * 0xBF58476D1CE4E5B9) & M
    z = ((z ^ (z >> 27)) * 0x94D049BB133111EB) & M
    return z ^ (z >> 31)
