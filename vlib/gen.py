"""Generators of configurations and operation histories (one PRNG, everything replayable)."""
import math
import random

from .proto import History, hx, hx32

ASYNC = ["fastin", "fastout", "sincin", "sincout"]
FFT = ["fftin", "fftout", "fftio"]
ALL = ASYNC + FFT


def pick_ratio(rng):
    c = rng.random()
    if c < 0.06:
        # extreme conversions (the constructors accept any positive ratio); chunk sizes are capped for these in gen_cfg
        return rng.choice([20.0, 32.0, 50.0, 100.0, 1 / 20, 1 / 50, 1 / 100])
    if c < 0.25:
        return rng.choice([0.5, 1.0, 2.0, 0.25, 4.0, 1.5, 0.75, 8.0, 0.125])
    if c < 0.45:
        a, b = rng.choice([(44100, 48000), (48000, 44100), (44100, 96000), (96000, 44100), (48000, 16000),
                           (16000, 48000), (44100, 192000), (192000, 44100), (8000, 44100)])
        return b / a
    return math.exp(rng.uniform(math.log(1 / 16), math.log(16)))


def pick_chunk(rng, small=False):
    c = rng.random()
    if small or c < 0.45:
        return rng.randint(1, 16)
    if c < 0.75:
        return rng.choice([17, 31, 32, 33, 63, 64, 65, 100, 127, 128, 129, 255, 256, 257])
    if c < 0.95:
        return rng.randint(16, 1024)
    return rng.randint(1024, 4096)


class Cfg:
    def __init__(self, kind, ty, nch, params, line, **kw):
        self.kind = kind
        self.ty = ty
        self.nch = nch
        self.params = params
        self.line = line        # text after "<slot> new "
        self.__dict__.update(kw)

    def new(self, slot=0):
        return f"{slot} new {self.line}"


def gen_cfg(rng, kinds=ALL, ty=None, probe=True, nch=None, max_chunk=None, sinc_lens=None, interp=None):
    kind = rng.choice(kinds)
    ty = ty or rng.choice(["f64", "f64", "f32"])
    nch = nch if nch is not None else rng.choice([1, 1, 2, 2, 3, 4, 8])
    if kind in ("fastin", "fastout"):
        ratio = pick_ratio(rng)
        maxrel = rng.choice([1.0, 1.1, 2.0, 10.0])
        deg = rng.randint(0, 4)
        chunk = pick_chunk(rng)
        if max_chunk:
            chunk = min(chunk, max_chunk)
        if ratio > 16 or ratio < 1 / 16:
            chunk, maxrel = min(chunk, 32), min(maxrel, 2.0)
        line = f"{ty} {kind} {hx(ratio)} {hx(maxrel)} {deg} {chunk} {nch}"
        return Cfg(kind, ty, nch, dict(ratio=ratio, maxrel=maxrel, deg=deg, chunk=chunk), line,
                   ratio=ratio, maxrel=maxrel, chunk=chunk, L=8)
    if kind in ("sincin", "sincout"):
        ratio = pick_ratio(rng)
        maxrel = rng.choice([1.0, 1.1, 2.0, 10.0])
        it = interp if interp is not None else rng.randint(0, 3)
        sinc_len = rng.choice(sinc_lens or [8, 16, 24, 32, 64, 60, 128])
        if it in (0, 1):
            osf = rng.choice([2, 3, 16, 128])
        else:
            osf = rng.choice([1, 2, 3, 16, 128])
        fcut = rng.choice([0.95, 0.9, 0.8, 0.5])
        win = rng.randint(0, 5)
        chunk = pick_chunk(rng)
        if max_chunk:
            chunk = min(chunk, max_chunk)
        if ratio > 16 or ratio < 1 / 16:
            chunk, maxrel = min(chunk, 32), min(maxrel, 2.0)
        which = "probe" if probe else rng.choice(["auto", "scalar", "avx", "sse"])
        L = 8 * ((sinc_len + 7) // 8)
        if probe and sinc_lens is None and rng.random() < 0.12:
            # a user-implemented interpolator of arbitrary (also odd) length, through new_with_interpolator
            which = "rprobe"
            sinc_len = rng.choice([1, 2, 3, 5, 6, 7, 9, 11, 12, 20, 33])
            L = sinc_len
        line = f"{ty} {kind} {hx(ratio)} {hx(maxrel)} {it} {sinc_len} {osf} {hx32(fcut)} {win} {chunk} {nch} {which}"
        return Cfg(kind, ty, nch, dict(ratio=ratio, maxrel=maxrel, interp=it, sinc_len=sinc_len, osf=osf,
                                       fcut=fcut, win=win, chunk=chunk, which=which), line,
                   ratio=ratio, maxrel=maxrel, chunk=chunk, L=L)
    # FFT
    ri, ro = rng.choice([(44100, 48000), (48000, 44100), (48000, 96000), (96000, 48000), (44100, 88200),
                         (16000, 48000), (48000, 16000), (8000, 44100), (44100, 8000), (3, 2), (2, 3), (1, 1),
                         (7, 5), (147, 160), (1000, 1001), (48000, 48000), (44100, 44101),
                         # block sizes with large prime factors (FFT scratch needs, planner paths) and sizes whose f32
                         # reciprocal is inexact (61, 41, 47, 83, 97, 107, ...)
                         (44100, 44056), (8300, 8000), (14900, 16000), (8000, 10700), (61000, 48000), (41000, 48000),
                         (47, 48), (83, 80), (97, 96), (107, 100), (122, 121), (55, 54)])
    if rng.random() < 0.4:
        std = [8000, 11025, 16000, 22050, 32000, 44100, 48000, 88200, 96000, 176400, 192000]
        ri, ro = rng.choice(std), rng.choice(std)
    chunk = rng.choice([1, 2, 7, 10, 64, 100, 147, 160, 256, 441, 480, 1000, 1024, 2048])
    if rng.random() < 0.5:
        # any request size: the block-size arithmetic (f32 ceil, integer products) must be right for all of them
        chunk = rng.randint(1, 4096)
    g = math.gcd(ri, ro)
    if ri // g < 200 and rng.random() < 0.3:
        # requests that are exact small multiples of the block (carry-over lands exactly on block boundaries)
        chunk = (ri // g) * rng.randint(1, 8)
    # keep FFT sizes small enough to be fast
    if max(ri, ro) // g > 3000:
        chunk = min(chunk, 64)
    sub = rng.choice([1, 1, 2, 3, 4, 8])
    unit = (ro // g) if kind == "fftout" else (ri // g)
    if kind != "fftio" and unit <= 400 and rng.random() < 0.2:
        # a request a few frames beyond a whole number of sub-chunks of whole units: the integer divisions
        # (chunk / sub_chunks, frames / block) each drop a different remainder here
        sub = rng.choice([2, 3, 4, 8])
        chunk = min(6000, sub * unit * rng.randint(1, 6) + rng.randint(0, sub - 1))
    if kind == "fftio":
        line = f"{ty} fftio {ri} {ro} {chunk} {nch}"
    else:
        line = f"{ty} {kind} {ri} {ro} {chunk} {sub} {nch}"
    return Cfg(kind, ty, nch, dict(ri=ri, ro=ro, chunk=chunk, sub=sub), line, ri=ri, ro=ro, chunk=chunk, sub=sub)


def rand_mask(rng, nch, allow_all_false=True):
    if rng.random() < 0.5:
        return "-"
    m = "".join(rng.choice("01") for _ in range(nch))
    if not allow_all_false and "1" not in m:
        m = "1" + m[1:]
    return m


def rand_sig(rng, exact=True):
    c = rng.random()
    if c < 0.3:
        return "i"
    if c < 0.7:
        return "r%d" % rng.randint(0, 10 ** 6)
    if c < 0.85:
        return "p%d,%d" % (rng.randint(0, 7), rng.randint(0, 999))
    return "z"


def in_range_ratio(rng, cfg, calm=False):
    """a ratio strictly inside [orig/maxrel, orig*maxrel]"""
    if cfg.maxrel <= 1.0:
        return cfg.ratio
    if calm:
        lo, hi = 1 / min(cfg.maxrel, 1.02), min(cfg.maxrel, 1.02)
    else:
        lo, hi = 1 / cfg.maxrel, cfg.maxrel
    rel = math.exp(rng.uniform(math.log(lo), math.log(hi)))
    if not calm and rng.random() < 0.2:
        rel = rng.choice([lo, hi])      # the ends of the permitted range (just inside)
    rel = min(max(rel, lo * (1 + 1e-9)), hi * (1 - 1e-9))
    return cfg.ratio * rel, rel


def gen_valid_history(rng, cfg, nops, slot=0, ratio_changes="any", chunk_changes=True, masks="const",
                      wrappers=True, resets=True, partial=True, dump=False, larger=True, sig=None):
    """A history of valid operations only (the quantifier of C03/C04).

    ratio_changes: 'none' | 'calm' | 'any' ; masks: 'none' | 'const' | 'vary'"""
    ops = [cfg.new(slot)]
    isasync = cfg.kind in ASYNC
    mask = "-" if masks == "none" else rand_mask(rng, cfg.nch)
    sg = sig or rand_sig(rng)
    feats = set()
    # FFT slots: the model's data plane (naive-DFT unit) is compared by tolerance, which needs the values
    # ... and so do the sinc resamplers with a real table (libm): without the values nothing of their data plane is compared
    realsinc = cfg.kind in ("sincin", "sincout") and cfg.line.split()[-1] in ("auto", "scalar", "avx", "sse")
    d = " dump" if (dump or cfg.kind in FFT or realsinc) else ""
    for _ in range(nops):
        c = rng.random()
        if masks == "vary" and rng.random() < 0.2:
            mask = rand_mask(rng, cfg.nch)
        em = " em" if (mask != "-" and rng.random() < 0.3) else ""
        if c < 0.55:
            insz = "n" if (not larger or rng.random() < 0.6) else rng.choice(["n+1", "n+7", "m", "m+3"])
            outsz = "n" if (not larger or rng.random() < 0.4) else rng.choice(["m", "n+1", "m+5", "n+13"])
            if insz.startswith("m") and em:
                pass
            ops.append(f"{slot} proc {mask} {insz} {outsz} {sg}{em}{d}")
            feats.add("proc")
        elif c < 0.63 and partial:
            which = rng.random()
            if which < 0.4:
                ops.append(f"{slot} part {mask} none m {sg}{d}")
            else:
                # (inactive channels may be handed over as empty slices here too)
                ops.append(f"{slot} part {mask} p{rng.randint(0, 5)} m {sg}{em}{d}")
            feats.add("part")
        elif c < 0.70 and wrappers:
            if rng.random() < 0.7:
                ops.append(f"{slot} procw {mask} n {sg}{d}")
            else:
                ops.append(f"{slot} partw {mask} {rng.choice(['none', 'p1', 'n'])} {sg}{d}")
            feats.add("wrap")
        elif c < 0.82 and isasync and ratio_changes != "none" and cfg.maxrel > 1.0:
            r, rel = in_range_ratio(rng, cfg, calm=(ratio_changes == "calm"))
            ramp = rng.choice([0, 1])
            if rng.random() < 0.5:
                ops.append(f"{slot} ratio {hx(r)} {ramp}")
            else:
                ops.append(f"{slot} rel {hx(rel)} {ramp}")
            feats.add("ratio-ramp" if ramp else "ratio-step")
        elif c < 0.88 and chunk_changes and cfg.kind in ("sincin", "sincout"):
            ops.append(f"{slot} chunk {rng.randint(1, cfg.chunk)}")
            feats.add("chunk")
        elif c < 0.92 and resets:
            ops.append(f"{slot} reset")
            feats.add("reset")
        else:
            ops.append(f"{slot} get")
    return History(ops, {"cfg": cfg.line, "kind": cfg.kind, "ty": cfg.ty, "feats": sorted(feats),
                         "ratio_changes": ratio_changes, "valid": True})
