"""Build steps shared by every check: translator, Lean model/driver/proofs, Rust worker."""
import fcntl
import json
import os
import re
import subprocess
import time

ROOT = os.path.dirname(os.path.dirname(os.path.abspath(__file__)))
LEAN = os.path.join(ROOT, "lean")
HARNESS = os.path.join(ROOT, "harness")
WORK = os.path.join(ROOT, "work")
WORKER = os.path.join(HARNESS, "target", "release", "rv-worker")
DRIVER = os.path.join(LEAN, ".lake", "build", "bin", "rv-driver")
ALLOWED_AXIOMS = {"propext", "Classical.choice", "Quot.sound"}
FORBIDDEN = re.compile(r"\b(sorry|admit|native_decide|bv_decide|implemented_by|unsafe)\b|^\s*axiom\s|maxHeartbeats\s+0")


class Lock:
    def __init__(self, name):
        os.makedirs(WORK, exist_ok=True)
        self.path = os.path.join(WORK, name + ".lock")

    def __enter__(self):
        self.f = open(self.path, "w")
        fcntl.flock(self.f, fcntl.LOCK_EX)
        return self

    def __exit__(self, *a):
        fcntl.flock(self.f, fcntl.LOCK_UN)
        self.f.close()


def run(cmd, cwd=None, timeout=3600, env=None):
    e = dict(os.environ)
    e["CARGO_NET_OFFLINE"] = "true"
    if env:
        e.update(env)
    t0 = time.time()
    p = subprocess.run(cmd, cwd=cwd, stdout=subprocess.PIPE, stderr=subprocess.STDOUT, text=True,
                       timeout=timeout, env=e, shell=isinstance(cmd, str))
    return p.returncode, p.stdout, time.time() - t0


def translate():
    """Tie A: regenerate Generated.lean from /repo/src.  Returns (ok, message, failing item)."""
    with Lock("build"):
        rc, out, _ = run(["python3", os.path.join(ROOT, "translate", "rs2lean.py")])
    item = None
    if rc != 0:
        try:
            with open(os.path.join(ROOT, "translate", "last_error.json")) as f:
                item = json.load(f)
        except Exception:
            item = {"item": "?", "message": out.strip()}
    return rc == 0, out.strip(), item


def restore_generated():
    """Put the committed Generated.lean (the model of the tree the machinery was committed against) back in place."""
    with Lock("build"):
        rc, out, _ = run(["git", "-C", ROOT, "show", "HEAD:lean/RubatoModel/Generated.lean"])
        path = os.path.join(ROOT, "lean", "RubatoModel", "Generated.lean")
        if rc == 0 and out.strip():
            try:
                with open(path) as f:
                    cur = f.read()
            except OSError:
                cur = None
            if cur != out:
                with open(path, "w") as f:
                    f.write(out)
    return rc == 0


_SNAP = None


def _snapshot(path, name):
    """Private copy of a freshly built binary (taken under the build lock): a later rebuild by another check — or by a
    developer editing the model — cannot change what THIS run executes."""
    global _SNAP
    import atexit
    import shutil
    if _SNAP is None:
        _SNAP = os.path.join(WORK, f"bin-{os.getpid()}")
        os.makedirs(_SNAP, exist_ok=True)
        atexit.register(shutil.rmtree, _SNAP, True)
    dst = os.path.join(_SNAP, name)
    shutil.copy2(path, dst)
    return dst


def build_worker():
    global WORKER
    with Lock("build"):
        rc, out, dt = run(["cargo", "build", "--release", "--offline"], cwd=HARNESS)
        if rc == 0:
            WORKER = _snapshot(os.path.join(HARNESS, "target", "release", "rv-worker"), "rv-worker")
    return rc == 0, out, dt


def build_driver():
    global DRIVER
    with Lock("build"):
        rc, out, dt = run(["lake", "build", "RubatoModel", "rv-driver"], cwd=LEAN)
        if rc == 0:
            DRIVER = _snapshot(os.path.join(LEAN, ".lake", "build", "bin", "rv-driver"), "rv-driver")
    return rc == 0, out, dt


def theorem_names(pid):
    """Names of the property theorems in Props/<pid>.lean (fully qualified)."""
    path = os.path.join(LEAN, "RubatoProofs", "Props", pid + ".lean")
    names = []
    ns = []
    if not os.path.exists(path):
        return names
    for line in open(path):
        m = re.match(r"\s*namespace\s+(\S+)", line)
        if m:
            ns.append(m.group(1))
        m = re.match(r"\s*end\s+(\S+)", line)
        if m and ns and ns[-1] == m.group(1):
            ns.pop()
        m = re.match(r"\s*(?:private\s+|protected\s+)?theorem\s+([^\s:({\[]+)", line)
        if m:
            names.append(".".join(ns + [m.group(1)]))
    return names


def strip_comments(text):
    text = re.sub(r"/-.*?-/", "", text, flags=re.S)
    return re.sub(r"--[^\n]*", "", text)


def forbidden_tokens(pid):
    """grep the property file and everything under Lemmas/ and RubatoModel/ for forbidden constructs."""
    hits = []
    files = [os.path.join(LEAN, "RubatoProofs", "Props", pid + ".lean")]
    for d in ("RubatoProofs/Lemmas", "RubatoModel"):
        dd = os.path.join(LEAN, d)
        if os.path.isdir(dd):
            files += [os.path.join(dd, f) for f in sorted(os.listdir(dd)) if f.endswith(".lean")]
    for f in files:
        if not os.path.exists(f):
            continue
        for ln, line in enumerate(strip_comments(open(f).read()).splitlines(), 1):
            if FORBIDDEN.search(line):
                hits.append(f"{os.path.relpath(f, LEAN)}:{ln}: {line.strip()[:80]}")
    return hits


def build_proofs(pid, clean=False):
    """lake build the property module and audit the axioms of every property theorem.

    Returns dict(ok, obligations, discharged, failed:[names], axioms:{name:[..]}, log, wall_s)."""
    mod = f"RubatoProofs.Props.{pid}"
    names = theorem_names(pid)
    res = {"ok": False, "obligations": len(names), "discharged": 0, "failed": [], "axioms": {}, "log": "",
           "module": mod, "forbidden": []}
    t0 = time.time()
    with Lock("build"):
        if clean:
            for ext in ("olean", "ilean", "trace", "c", "olean.hash", "ilean.hash", "c.hash"):
                p = os.path.join(LEAN, ".lake", "build", "lib", "lean", "RubatoProofs", "Props", f"{pid}.{ext}")
                if os.path.exists(p):
                    os.remove(p)
        rc, out, _ = run(["lake", "build", mod], cwd=LEAN, timeout=7200)
    res["log"] = out[-6000:]
    res["forbidden"] = forbidden_tokens(pid)
    if rc != 0:
        # which theorems are reported in error lines?
        bad = set()
        src = open(os.path.join(LEAN, "RubatoProofs", "Props", pid + ".lean")).read().splitlines()
        for m in re.finditer(r"Props/" + pid + r"\.lean:(\d+):\d+: error", out):
            ln = int(m.group(1))
            # nearest preceding theorem
            for k in range(ln - 1, -1, -1):
                mm = re.match(r"\s*(?:private\s+|protected\s+)?theorem\s+([^\s:({\[]+)", src[k]) if k < len(src) else None
                if mm:
                    bad.add(mm.group(1))
                    break
        res["failed"] = sorted(bad) or ["<build failed: see log>"]
        res["wall_s"] = time.time() - t0
        return res
    # audit
    audit_dir = os.path.join(WORK, "audit")
    os.makedirs(audit_dir, exist_ok=True)
    audit = os.path.join(audit_dir, f"Audit_{pid}.lean")
    with open(audit, "w") as f:
        f.write(f"import {mod}\n")
        for n in names:
            f.write(f"#print axioms {n}\n")
    with Lock("build"):
        rc, out, _ = run(["lake", "env", "lean", audit], cwd=LEAN, timeout=1800)
    cur = None
    axioms = {}
    for line in out.splitlines():
        m = re.match(r"'([^']+)' depends on axioms: \[(.*)\]", line)
        m2 = re.match(r"'([^']+)' does not depend on any axioms", line)
        if m:
            axioms[m.group(1)] = [a.strip() for a in m.group(2).split(",") if a.strip()]
            cur = m.group(1) if not line.rstrip().endswith("]") else None
        elif m2:
            axioms[m2.group(1)] = []
        elif line.startswith("'") and "depends on axioms: [" in line:
            cur = line.split("'")[1]
            axioms[cur] = [a.strip() for a in line.split("[", 1)[1].rstrip("]").split(",") if a.strip()]
        elif cur is not None:
            axioms[cur] += [a.strip().rstrip("]") for a in line.split(",") if a.strip().rstrip("]")]
            if line.rstrip().endswith("]"):
                cur = None
    res["axioms"] = axioms
    failed = []
    for n in names:
        ax = axioms.get(n)
        if ax is None:
            failed.append(n + " (no audit output)")
        elif not set(ax) <= ALLOWED_AXIOMS:
            failed.append(n + " (axioms " + ",".join(sorted(set(ax) - ALLOWED_AXIOMS)) + ")")
    if res["forbidden"]:
        failed.append("forbidden constructs: " + "; ".join(res["forbidden"][:3]))
    res["failed"] = failed
    res["discharged"] = len(names) - len([f for f in failed if not f.startswith("forbidden")])
    res["ok"] = rc == 0 and not failed and len(names) > 0
    res["wall_s"] = time.time() - t0
    return res


def leanchecker(mods):
    """thorough tier: independent re-check of compiled modules"""
    results = {}
    for m in mods:
        rc, out, dt = run(["lake", "env", "leanchecker", m], cwd=LEAN, timeout=3600)
        results[m] = {"rc": rc, "wall_s": round(dt, 1), "out": out[-400:]}
    return results
