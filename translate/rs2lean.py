#!/usr/bin/env python3
"""rs2lean: narrow Rust -> Lean 4 translator for the straight-line numeric kernels of rubato.

Reads /repo/src (or $RUBATO_SRC) and writes lean/RubatoModel/Generated.lean, touching the
file only when its content changes.  Fails closed: any construct outside the grammar makes the
run exit non-zero and names the item (written to translate/last_error.json as well).

Extracted items
  G1  asynchro_fast.rs : interp_septic / interp_quintic / interp_cubic / interp_lin
  G2  asynchro_sinc.rs : interp_cubic / interp_quad / interp_lin
  G3  windows.rs       : blackman_harris / blackman / hann point formulas, which windows are
                         squared and on which base, calculate_cutoff with its coefficient table
  G4  asynchro_fast.rs : POLYNOMIAL_LEN_*, and per PolynomialDegree arm (offset, width, kernel) of the
                         five fixed-in and five fixed-out loop bodies (must agree pairwise)
  G5  interpolation.rs : offsets handed out by get_nearest_times_2/3/4 (range of `sub`)
  G6..G11 see DESIGN.md 8.3 (effect table, typed scalar formulas, forwarding table, ambient-state scan, validation, sinc.rs)
  G12 reset(): which struct fields change during use and which of them reset() restores (whole-buffer fills / assignments)
  G13 the per-channel lengths of the storage the seven constructors allocate
  G14 history carry (copy_within) and input load of the four asynchronous process_into_buffer bodies
  G15 data movement of the three synchronous process_into_buffer bodies (35 formulas)
  G16 lib.rs: the five provided methods of the Resampler trait (statement shapes; which getter sizes what, who is called)
  G17 what the constructors reject (validate_ratios, validate_sample_rates) and that they validate first
  G18 what an asynchronous call reports and leaves behind (ratio after the call, the two counts, order of the consumed-count read)
  (G7, G13, G15: a local or parameter a formula reads must not be re-bound in the function it was taken from)
"""
import json
import os
import re
import struct
import sys
from fractions import Fraction

SRC = os.environ.get("RUBATO_SRC", "/repo/src")
HERE = os.path.dirname(os.path.abspath(__file__))
OUT = os.environ.get("RS2LEAN_OUT") or os.path.join(HERE, "..", "lean", "RubatoModel", "Generated.lean")
ERR = os.environ.get("RS2LEAN_ERR") or os.path.join(HERE, "last_error.json")


class TranslateError(Exception):
    def __init__(self, item, msg):
        super().__init__(f"{item}: {msg}")
        self.item = item
        self.msg = msg


# ----------------------------------------------------------------------------- lexer
TOK = re.compile(r"""
    (?P<ws>\s+|//[^\n]*)
  | (?P<float>\d+\.\d*(?:[eE][+-]?\d+)?|\d+[eE][+-]?\d+)
  | (?P<int>\d+)
  | (?P<id>[A-Za-z_][A-Za-z0-9_]*)
  | (?P<op>::|\.\.|[-+*/()\[\]{}.,;=!&<>|:])
""", re.X)


def lex(s, item):
    out = []
    pos = 0
    while pos < len(s):
        m = TOK.match(s, pos)
        if not m:
            raise TranslateError(item, f"cannot tokenize at {s[pos:pos+30]!r}")
        pos = m.end()
        k = m.lastgroup
        if k == "ws":
            continue
        out.append((k, m.group()))
    return out


# ----------------------------------------------------------------------------- source access
def read(name):
    with open(os.path.join(SRC, name)) as f:
        return f.read()


def strip_comments(s):
    return re.sub(r"//[^\n]*", "", s)


def fn_body(src, name, item):
    """Return (signature, body) of `fn name`; body is the text between the outer braces."""
    m = re.search(r"\bfn\s+" + re.escape(name) + r"\b", src)
    if not m:
        raise TranslateError(item, f"fn {name} not found")
    i = src.index("{", m.end())
    # skip `where` clauses: the first '{' after the signature
    depth = 0
    j = i
    while j < len(src):
        if src[j] == "{":
            depth += 1
        elif src[j] == "}":
            depth -= 1
            if depth == 0:
                return src[m.start():i], src[i + 1:j]
        j += 1
    raise TranslateError(item, f"unbalanced braces in fn {name}")


def block_after(src, start, item):
    i = src.index("{", start)
    depth = 0
    j = i
    while j < len(src):
        if src[j] == "{":
            depth += 1
        elif src[j] == "}":
            depth -= 1
            if depth == 0:
                return src[i + 1:j], j + 1
        j += 1
    raise TranslateError(item, "unbalanced braces")


# ----------------------------------------------------------------------------- expression parser
def lit_to_lean(text):
    """A Rust float literal -> `RNum.lit bits n d` (exact decimal n/d, binary64 bits of rustc)."""
    fr = Fraction(text)
    bits = struct.unpack("<Q", struct.pack("<d", float(text)))[0]
    return f"(RNum.lit 0x{bits:016X} {fr.numerator} {fr.denominator})"


class Parser:
    """Pratt parser for the straight-line numeric subset.

    ctx 'S' : expression of the sample type T        (operators resolve on σ)
    ctx 'C' : expression inside T::coerce(..)/t!(..)  (operators resolve on ρ, the f64 arithmetic)
    """

    def __init__(self, toks, item, env):
        self.t = toks
        self.i = 0
        self.item = item
        self.env = env   # name -> 'S' | 'C' | 'N' (usize)

    def peek(self):
        return self.t[self.i] if self.i < len(self.t) else ("eof", "")

    def next(self):
        tok = self.peek()
        self.i += 1
        return tok

    def expect(self, v):
        k, x = self.next()
        if x != v:
            raise TranslateError(self.item, f"expected {v!r}, got {x!r}")

    def fail(self, what):
        raise TranslateError(self.item, f"unsupported construct: {what}")

    def expr(self, ctx, rbp=0):
        left = self.prefix(ctx)
        while True:
            k, x = self.peek()
            if x in ("+", "-") and rbp < 10:
                self.next()
                right = self.expr(ctx, 10)
                left = f"({left} {x} {right})"
            elif x in ("*", "/") and rbp < 20:
                self.next()
                right = self.expr(ctx, 20)
                left = f"({left} {x} {right})"
            elif x == "." and rbp < 40:
                # method call: .cos() / .sin()
                self.next()
                k2, name = self.next()
                if name not in ("cos", "sin"):
                    self.fail(f"method .{name}")
                self.expect("(")
                self.expect(")")
                if ctx != "S":
                    self.fail(f".{name}() outside sample context")
                left = f"(STrig.{name} {left})"
            else:
                return left

    def prefix(self, ctx):
        k, x = self.next()
        if x == "-":
            e = self.expr(ctx, 30)
            return f"(- {e})"
        if x == "(":
            e = self.expr(ctx)
            self.expect(")")
            return e
        if k == "float":
            if ctx != "C":
                self.fail(f"bare float literal {x} in sample context")
            return lit_to_lean(x)
        if k == "int":
            if ctx != "C":
                self.fail(f"bare int literal {x} in sample context")
            return f"(RNum.ofInt {x})"
        if k == "id":
            if x == "T":
                self.expect("::")
                k2, name = self.next()
                if name == "coerce":
                    self.expect("(")
                    inner = self.coerce_arg()
                    self.expect(")")
                    return inner
                if name == "one":
                    self.expect("(")
                    self.expect(")")
                    return "(SNum.one)"
                if name == "zero":
                    self.expect("(")
                    self.expect(")")
                    return "(SNum.zero)"
                if name == "PI":
                    return "(STrig.pi)"
                self.fail(f"T::{name}")
            if x == "t":
                self.expect("!")
                self.expect("(")
                inner = self.coerce_arg()
                self.expect(")")
                return inner
            if x == "yvals":
                self.expect("[")
                k2, n = self.next()
                if k2 != "int":
                    self.fail("yvals[non-literal]")
                self.expect("]")
                return f"(yvals {n})"
            if x in self.env:
                kind = self.env[x]
                if kind == ctx:
                    return x
                if kind == "N" and ctx == "C":
                    return f"(RNum.ofInt (Int.ofNat {x}))"
                self.fail(f"identifier {x} of kind {kind} in context {ctx}")
            self.fail(f"unknown identifier {x}")
        self.fail(f"token {x!r}")

    def coerce_arg(self):
        """argument of T::coerce / t!: either a usize identifier or an f64 expression."""
        k, x = self.peek()
        k2, x2 = self.t[self.i + 1] if self.i + 1 < len(self.t) else ("eof", "")
        if k == "id" and self.env.get(x) == "N" and x2 == ")":
            self.next()
            return f"(SNum.ofNat {x})"
        # a pure usize expression (identifiers of kind N, integer literals, + - * / and parentheses): usize arithmetic first
        j, depth, toks = self.i, 0, []
        while j < len(self.t):
            kk, xx = self.t[j]
            if xx == "(":
                depth += 1
            elif xx == ")":
                if depth == 0:
                    break
                depth -= 1
            toks.append((kk, xx))
            j += 1
        if toks and all((kk == "id" and self.env.get(xx) == "N") or kk == "int" or xx in "+-*/()" for kk, xx in toks) \
                and any(kk == "id" for kk, xx in toks):
            self.i = j
            return "(SNum.ofNat (" + " ".join(xx for kk, xx in toks) + "))"
        inner = self.expr("C")
        return f"(SNum.ofCtl {inner})"

    def done(self):
        if self.i != len(self.t):
            raise TranslateError(self.item, f"trailing tokens {self.t[self.i:self.i+4]}")


def parse_straightline(body, item, env):
    """`let a = e; ... ; final_expr` -> ([(name, lean)], lean_final)."""
    body = strip_comments(body)
    stmts = [s.strip() for s in body.split(";")]
    lets = []
    env = dict(env)
    for s in stmts[:-1]:
        m = re.match(r"let\s+(mut\s+)?([A-Za-z_][A-Za-z0-9_]*)\s*=\s*(.*)$", s, re.S)
        if not m:
            raise TranslateError(item, f"unsupported statement {s[:60]!r}")
        if m.group(1):
            raise TranslateError(item, f"mutable binding {m.group(2)}")
        name, rhs = m.group(2), m.group(3)
        p = Parser(lex(rhs, item), item, env)
        e = p.expr("S")
        p.done()
        lets.append((name, e))
        env[name] = "S"
    p = Parser(lex(stmts[-1], item), item, env)
    e = p.expr("S")
    p.done()
    return lets, e


LEAN_KEYWORDS = {"end", "at", "from", "have", "show", "fun", "do", "then", "else", "if", "in", "let", "open", "by", "with"}


def lean_name(n):
    return n + "_" if n in LEAN_KEYWORDS else n


def emit_fn(lean_fn, params, lets, final, doc, trig=False):
    lines = [f"/-- {doc} -/"]
    cls = "[RNum ρ] [SNum ρ σ]" + (" [STrig σ]" if trig else "")
    lines.append(f"def {lean_fn} {{ρ σ : Type}} {cls} {params} : σ :=")
    for n, e in lets:
        lines.append(f"  let {lean_name(n)} : σ := {e}")
    lines.append(f"  {final}")
    return "\n".join(lines)


# ----------------------------------------------------------------------------- G1 / G2
def gen_interp(file, fname, lean_fn, npts, item):
    src = read(file)
    sig, body = fn_body(src, fname, item)
    if not re.search(r"x\s*:\s*T", sig) or "yvals" not in sig:
        raise TranslateError(item, f"unexpected signature {sig!r}")
    lets, final = parse_straightline(body, item, {"x": "S"})
    # all yvals indices must be < npts and every one of 0..npts-1 must be used
    used = set(int(k) for k in re.findall(r"\(yvals (\d+)\)", " ".join(e for _, e in lets) + final))
    if used != set(range(npts)):
        raise TranslateError(item, f"yvals indices used {sorted(used)} != 0..{npts-1}")
    doc = f"`{file}::{fname}` ({npts} points), translated expression by expression."
    return emit_fn(lean_fn, "(x : σ) (yvals : Nat → σ)", lets, final, doc)


# ----------------------------------------------------------------------------- G4
DEG = ["Septic", "Quintic", "Cubic", "Linear", "Nearest"]


def gen_fast_table(item="G4.fast_window_table"):
    src = strip_comments(read("asynchro_fast.rs"))
    mU = re.search(r"const\s+POLYNOMIAL_LEN_U\s*:\s*usize\s*=\s*(\d+)\s*;", src)
    mI = re.search(r"const\s+POLYNOMIAL_LEN_I\s*:\s*isize\s*=\s*(\d+)\s*;", src)
    if not mU or not mI or mU.group(1) != mI.group(1):
        raise TranslateError(item, "POLYNOMIAL_LEN_U / POLYNOMIAL_LEN_I missing or different")
    plen = int(mU.group(1))
    tables = []
    for which, anchor in (("FastFixedIn", r"impl<T>\s+Resampler<T>\s+for\s+FastFixedIn<T>"),
                          ("FastFixedOut", r"impl<T>\s+Resampler<T>\s+for\s+FastFixedOut<T>")):
        m = re.search(anchor, src)
        if not m:
            raise TranslateError(item, f"impl for {which} not found")
        impl, _ = block_after(src, m.end(), item)
        m2 = re.search(r"match\s+self\.interpolation\s*", impl)
        if not m2:
            raise TranslateError(item, f"{which}: match self.interpolation not found")
        mt, _ = block_after(impl, m2.end(), item)
        tab = {}
        pos = 0
        while True:
            m3 = re.search(r"PolynomialDegree::(\w+)\s*=>\s*", mt[pos:])
            if not m3:
                break
            deg = m3.group(1)
            arm, endpos = block_after(mt, pos + m3.end(), item)
            pos = endpos
            # per-step recurrence must be the common one
            if not re.search(r"t_ratio\s*\+=\s*t_ratio_increment\s*;\s*idx\s*\+=\s*t_ratio\s*;", arm):
                raise TranslateError(item, f"{which}::{deg}: stepping recurrence changed")
            if deg == "Nearest":
                m4 = re.search(r"let\s+start_idx\s*=\s*idx\.floor\(\)\s+as\s+isize\s*;", arm)
                m5 = re.search(r"get_unchecked\(\(start_idx\s*\+\s*2\s*\*\s*POLYNOMIAL_LEN_I\)\s*as\s+usize\)", arm)
                if not m4 or not m5:
                    raise TranslateError(item, f"{which}::Nearest: unexpected body")
                tab[deg] = (0, 1, "nearest")
                continue
            m4 = re.search(r"let\s+start_idx\s*=\s*idx_floor\s+as\s+isize\s*(?:-\s*(\d+))?\s*;", arm)
            m5 = re.search(r"\(start_idx\s*\+\s*2\s*\*\s*POLYNOMIAL_LEN_I\)\s*as\s+usize\s*\.\.\s*"
                           r"\(start_idx\s*\+\s*2\s*\*\s*POLYNOMIAL_LEN_I\s*\+\s*(\d+)\)\s*as\s+usize", arm)
            m6 = re.search(r"=\s*(interp_\w+)\(frac_offset,\s*buf\)", arm)
            m7 = re.search(r"let\s+idx_floor\s*=\s*idx\.floor\(\)\s*;", arm)
            m8 = re.search(r"let\s+frac\s*=\s*idx\s*-\s*idx_floor\s*;", arm)
            if not (m4 and m5 and m6 and m7 and m8):
                raise TranslateError(item, f"{which}::{deg}: unexpected loop body")
            tab[deg] = (int(m4.group(1) or 0), int(m5.group(1)), m6.group(1))
        if sorted(tab) != sorted(DEG):
            raise TranslateError(item, f"{which}: arms {sorted(tab)}")
        tables.append(tab)
    if tables[0] != tables[1]:
        raise TranslateError(item, f"fixed-in and fixed-out window tables differ: {tables}")
    tab = tables[0]
    kern = {"interp_septic": "septic", "interp_quintic": "quintic", "interp_cubic": "cubic",
            "interp_lin": "lin", "nearest": "nearest"}
    out = [f"/-- `POLYNOMIAL_LEN_U` = `POLYNOMIAL_LEN_I` of asynchro_fast.rs -/",
           f"def polyLen : Nat := {plen}", "",
           "/-- per `PolynomialDegree`: (how far the window starts below ⌊idx⌋, window width, kernel);",
           "    read from the five fixed-in and the five fixed-out loop bodies, which agree. -/",
           "def fastWindow : Degree → Nat × Nat × FastKernel"]
    for d in DEG:
        o, w, k = tab[d]
        if k not in kern:
            raise TranslateError(item, f"unknown kernel {k}")
        out.append(f"  | .{d.lower()} => ({o}, {w}, .{kern[k]})")
    return "\n".join(out)


# ----------------------------------------------------------------------------- G5
def gen_nearest_offsets(item="G5.nearest_offsets"):
    src = strip_comments(read("interpolation.rs"))
    out = []
    res = {}
    for n in (3, 4):
        _, body = fn_body(src, f"get_nearest_times_{n}", item)
        m = re.search(r"in\s*\((-?\d+)\.\.(-?\d+)\)\.enumerate\(\)", body)
        if not m:
            raise TranslateError(item, f"get_nearest_times_{n}: offset range not found")
        res[n] = (int(m.group(1)), int(m.group(2)))
        if res[n][1] - res[n][0] != n:
            raise TranslateError(item, f"get_nearest_times_{n}: range {res[n]} has wrong length")
    _, body2 = fn_body(src, "get_nearest_times_2", item)
    if not re.search(r"subindex\s*\+=\s*1\s*;", body2):
        raise TranslateError(item, "get_nearest_times_2: second point is not subindex+1")
    # the scalar statements and the wrap blocks of all four functions (statement-level translation)
    ws = r"\s*"
    loc = {"t": "F", "factor": "I"}
    WRAP_UP = r"if" + ws + r"subindex" + ws + r">=" + ws + r"factor" + ws + r"\{" + ws + r"subindex" + ws + r"-=" + ws + r"factor;" + ws + r"index" + ws + r"\+=" + ws + r"1;" + ws + r"\}"
    WRAP_BOTH = (r"if" + ws + r"subindex" + ws + r"<" + ws + r"0" + ws + r"\{" + ws + r"subindex" + ws + r"\+=" + ws + r"factor;" + ws + r"index" + ws + r"-=" + ws + r"1;" + ws + r"\}" + ws +
                 r"else" + ws + WRAP_UP)

    def texpr(text, what):
        te = TExpr(lex(text, item), item + "." + what, loc, {})
        e = te.expr()
        te.done()
        if e[1] != "I":
            raise TranslateError(item + "." + what, f"not an isize expression: {text}")
        return e[0]
    defs = []
    # get_nearest_times_2
    m2 = re.match(ws + r"let" + ws + r"mut" + ws + r"index" + ws + r"=" + ws + r"(.*?);" + ws + r"let" + ws + r"mut" + ws + r"subindex" + ws + r"=" + ws + r"(.*?);" + ws +
                  r"points\[0\]" + ws + r"=" + ws + r"\(index," + ws + r"subindex\);" + ws + r"subindex" + ws + r"\+=" + ws + r"1;" + ws + WRAP_UP + ws +
                  r"points\[1\]" + ws + r"=" + ws + r"\(index," + ws + r"subindex\);" + ws + r"$", body2, re.S)
    if not m2:
        raise TranslateError(item + ".times_2", "get_nearest_times_2 does not have the expected statement structure")
    defs.append(("times2_index", texpr(m2.group(1), "times_2")))
    defs.append(("times2_subindex", texpr(m2.group(2), "times_2")))
    for n in (3, 4):
        _, bodyn = fn_body(src, f"get_nearest_times_{n}", item)
        mn = re.match(ws + r"let" + ws + r"start" + ws + r"=" + ws + r"(.*?);" + ws + r"let" + ws + r"frac" + ws + r"=" + ws + r"(.*?);" + ws +
                      r"let" + ws + r"mut" + ws + r"index;" + ws + r"let" + ws + r"mut" + ws + r"subindex;" + ws +
                      r"for" + ws + r"\(idx," + ws + r"sub\)" + ws + r"in" + ws + r"\(-?\d+\.\.-?\d+\)\.enumerate\(\)" + ws + r"\{" + ws +
                      r"index" + ws + r"=" + ws + r"start;" + ws + r"subindex" + ws + r"=" + ws + r"frac" + ws + r"\+" + ws + r"sub;" + ws + WRAP_BOTH + ws +
                      r"points\[idx\]" + ws + r"=" + ws + r"\(index," + ws + r"subindex\);" + ws + r"\}" + ws + r"$", bodyn, re.S)
        if not mn:
            raise TranslateError(item + f".times_{n}", f"get_nearest_times_{n} does not have the expected statement structure")
        defs.append((f"times{n}_start", texpr(mn.group(1), f"times_{n}")))
        defs.append((f"times{n}_frac", texpr(mn.group(2), f"times_{n}")))
    _, body1 = fn_body(src, "get_nearest_time", item)
    m1 = re.match(ws + r"let" + ws + r"mut" + ws + r"index" + ws + r"=" + ws + r"(.*?);" + ws + r"let" + ws + r"mut" + ws + r"subindex" + ws + r"=" + ws + r"(.*?);" + ws +
                  WRAP_UP + ws + r"\(index," + ws + r"subindex\)" + ws + r"$", body1, re.S)
    if not m1:
        raise TranslateError(item + ".time", "get_nearest_time does not have the expected statement structure")
    defs.append(("time_index", texpr(m1.group(1), "time")))
    defs.append(("time_subindex", texpr(m1.group(2), "time")))
    for nm, e in defs:
        out.append(f"/-- interpolation.rs: {nm.replace('_', ': ')} (the wrap blocks `if subindex >= factor {{..}}` / `if subindex < 0 {{..}} else if ..` are checked on the text) -/")
        out.append(f"def {nm} {{ρ : Type}} [RNum ρ] (t : ρ) (factor : Int) : Int :=")
        out.append(f"  {e}")
        out.append("")
    out.append("/-- first sub-sample offset (relative to ⌊frac·f⌋) used by get_nearest_times_k -/")
    out.append("def nearestFirstOffset : Nat → Int")
    out.append("  | 2 => 0")
    out.append(f"  | 3 => {res[3][0]}")
    out.append(f"  | 4 => {res[4][0]}")
    out.append("  | _ => 0")
    return "\n".join(out)


# ----------------------------------------------------------------------------- G3
WIN = ["Blackman", "Blackman2", "BlackmanHarris", "BlackmanHarris2", "Hann", "Hann2"]
WIN_LEAN = {"Blackman": "blackman", "Blackman2": "blackman2", "BlackmanHarris": "blackmanHarris",
            "BlackmanHarris2": "blackmanHarris2", "Hann": "hann", "Hann2": "hann2"}


def gen_window_fn(fname, lean_fn, item):
    src = strip_comments(read("windows.rs"))
    sig, body = fn_body(src, fname, item)
    if not re.search(r"npoints\s*:\s*usize", sig):
        raise TranslateError(item, f"unexpected signature {sig!r}")
    m = re.search(r"for\s*\(x,\s*item\)\s*in\s*window\.iter_mut\(\)\.enumerate\(\)\s*", body)
    if not m:
        raise TranslateError(item, "point loop not found")
    pre = body[:m.start()]
    pre, nvec = re.subn(r"let\s+mut\s+window\s*=\s*vec!\[T::zero\(\);\s*npoints\]\s*;", "", pre)
    if nvec != 1:
        raise TranslateError(item, "window allocation `vec![T::zero(); npoints]` not found")
    loop, _ = block_after(body, m.end(), item)
    env = {"npoints": "N", "x": "N"}
    lets = []
    for s in [s.strip() for s in pre.split(";")]:
        if not s:
            continue
        if re.match(r"trace!\s*\(", s):
            continue
        mm = re.match(r"let\s+([A-Za-z_][A-Za-z0-9_]*)\s*=\s*(.*)$", s, re.S)
        if not mm:
            raise TranslateError(item, f"unsupported statement {s[:60]!r}")
        p = Parser(lex(mm.group(2), item), item, env)
        e = p.expr("S")
        p.done()
        lets.append((mm.group(1), e))
        env[mm.group(1)] = "S"
    stmts = [s.strip() for s in loop.split(";") if s.strip()]
    final = None
    for s in stmts:
        mm = re.match(r"let\s+([A-Za-z_][A-Za-z0-9_]*)\s*=\s*(.*)$", s, re.S)
        if mm:
            p = Parser(lex(mm.group(2), item), item, env)
            e = p.expr("S")
            p.done()
            lets.append((mm.group(1), e))
            env[mm.group(1)] = "S"
            continue
        mm = re.match(r"\*item\s*=\s*(.*)$", s, re.S)
        if mm and final is None:
            p = Parser(lex(mm.group(1), item), item, env)
            final = p.expr("S")
            p.done()
            continue
        raise TranslateError(item, f"unsupported loop statement {s[:60]!r}")
    if final is None:
        raise TranslateError(item, "no `*item = …` assignment")
    if not re.search(r"\}\s*window\s*$", body.strip()):
        raise TranslateError(item, "function does not return `window`")
    doc = f"`windows.rs::{fname}`: value of point `x` of an `npoints`-point window."
    return emit_fn(lean_fn, "(npoints x : Nat)", lets, final, doc, trig=True)


def gen_make_window(item="G3.make_window"):
    src = strip_comments(read("windows.rs"))
    _, body = fn_body(src, "make_window", item)
    ms = list(re.finditer(r"match\s+windowfunc\s*", body))
    if len(ms) != 2:
        raise TranslateError(item, "expected two `match windowfunc`")
    first, _ = block_after(body, ms[0].end(), item)
    second, _ = block_after(body, ms[1].end(), item)
    base = {}
    for m in re.finditer(r"((?:WindowFunction::\w+\s*\|?\s*)+)=>\s*\{?\s*(\w+)::<T>\(npoints\)", first):
        for v in re.findall(r"WindowFunction::(\w+)", m.group(1)):
            base[v] = m.group(2)
    if sorted(base) != sorted(WIN):
        raise TranslateError(item, f"base window arms {sorted(base)}")
    m = re.search(r"((?:WindowFunction::\w+\s*\|?\s*)+)=>\s*\{\s*window\.iter_mut\(\)\.for_each\(\|y\|\s*\*y\s*=\s*\*y\s*\*\s*\*y\)", second)
    if not m:
        raise TranslateError(item, "squaring arm not found")
    squared = set(re.findall(r"WindowFunction::(\w+)", m.group(1)))
    if not re.search(r"_\s*=>\s*\{\s*\}", second):
        raise TranslateError(item, "default arm of squaring match is not empty")
    fn = {"blackman_harris": "blackman_harris_at", "blackman": "blackman_at", "hann": "hann_at"}
    out = ["/-- `windows.rs::make_window`, point `x`: base window, squared for the `…2` variants. -/",
           "def make_window_at {ρ σ : Type} [RNum ρ] [SNum ρ σ] [STrig σ] (w : Window) (npoints x : Nat) : σ :=",
           "  let v : σ := match w with"]
    for w in WIN:
        if base[w] not in fn:
            raise TranslateError(item, f"unknown base window fn {base[w]}")
        out.append(f"    | .{WIN_LEAN[w]} => {fn[base[w]]} npoints x")
    out.append("  match w with")
    for w in WIN:
        out.append(f"    | .{WIN_LEAN[w]} => " + ("v * v" if w in squared else "v"))
    out.append("")
    out.append("/-- which variants are squared -/")
    out.append("def windowSquared : Window → Bool")
    for w in WIN:
        out.append(f"  | .{WIN_LEAN[w]} => " + ("true" if w in squared else "false"))
    return "\n".join(out)


def gen_cutoff(item="G3.calculate_cutoff"):
    src = strip_comments(read("windows.rs"))
    sig, body = fn_body(src, "calculate_cutoff", item)
    m = re.search(r"let\s*\(k1,\s*k2,\s*k3\)\s*=\s*match\s+windowfunc\s*", body)
    if not m:
        raise TranslateError(item, "coefficient match not found")
    if body[:m.start()].strip():
        raise TranslateError(item, f"statement before the coefficient table (the argument may be altered): {body[:m.start()].strip()[:80]!r}")
    tab, endpos = block_after(body, m.end(), item)
    coeffs = {}
    for mm in re.finditer(r"WindowFunction::(\w+)\s*=>\s*\(\s*T::coerce\(([\d.eE+-]+)\),\s*T::coerce\(([\d.eE+-]+)\),\s*T::coerce\(([\d.eE+-]+)\),?\s*\)", tab):
        coeffs[mm.group(1)] = (mm.group(2), mm.group(3), mm.group(4))
    if sorted(coeffs) != sorted(WIN):
        raise TranslateError(item, f"coefficient arms {sorted(coeffs)}")
    rest = body[endpos:].strip()
    if not rest.startswith(";"):
        raise TranslateError(item, "unexpected text after coefficient table")
    rest = rest[1:]
    env = {"npoints": "N", "k1": "S", "k2": "S", "k3": "S"}
    lets, final = parse_straightline(rest, item, env)
    out = ["/-- coefficient table of `windows.rs::calculate_cutoff` -/",
           "def cutoffCoeffs {ρ σ : Type} [RNum ρ] [SNum ρ σ] : Window → σ × σ × σ"]
    for w in WIN:
        a, b, c = coeffs[w]
        out.append(f"  | .{WIN_LEAN[w]} => ((SNum.ofCtl {lit_to_lean(a)}), (SNum.ofCtl {lit_to_lean(b)}), (SNum.ofCtl {lit_to_lean(c)}))")
    out.append("")
    out.append("/-- `windows.rs::calculate_cutoff` -/")
    out.append("def calculate_cutoff {ρ σ : Type} [RNum ρ] [SNum ρ σ] (npoints : Nat) (w : Window) : σ :=")
    out.append("  let k : σ × σ × σ := cutoffCoeffs w")
    out.append("  let k1 : σ := k.1")
    out.append("  let k2 : σ := k.2.1")
    out.append("  let k3 : σ := k.2.2")
    for n, e in lets:
        out.append(f"  let {lean_name(n)} : σ := {e}")
    out.append(f"  {final}")
    return "\n".join(out)



# ----------------------------------------------------------------------------- G6 : effect table (C09)
ALLOC_PATTERNS = [
    (r"\bVec::", "Vec::"), (r"\bvec!", "vec!"), (r"\.collect\b", ".collect"), (r"\.to_vec\(", ".to_vec("),
    (r"\.to_owned\(", ".to_owned("), (r"\bBox::new\b", "Box::new"), (r"\bString\b", "String"), (r"\bformat!", "format!"),
    (r"\.push\(", ".push("), (r"\bwith_capacity\b", "with_capacity"), (r"\.clone\(\)", ".clone()"),
    (r"\.resize\(", ".resize("), (r"\.extend\w*\(", ".extend("), (r"\.process\(", ".process( (FFT without scratch)"),
    (r"\bmake_scratch_vec\b", "make_scratch_vec"), (r"\.insert\(", ".insert("), (r"\bArc::new\b", "Arc::new"),
    (r"\bplan_fft_\w+\(", "plan_fft"), (r"\bRealFftPlanner\b", "RealFftPlanner"), (r"\.to_string\(", ".to_string("),
]
RT_METHODS = ["process_into_buffer", "set_resample_ratio", "set_resample_ratio_relative", "set_chunk_size", "reset",
              "input_frames_max", "input_frames_next", "output_frames_max", "output_frames_next", "output_delay",
              "nbr_channels"]
WRAPPERS = ["process", "process_partial_into_buffer", "process_partial"]
RS_TYPES = ["FastFixedIn", "FastFixedOut", "SincFixedIn", "SincFixedOut", "FftFixedIn", "FftFixedOut", "FftFixedInOut"]
RS_FILES = ["lib.rs", "asynchro_fast.rs", "asynchro_sinc.rs", "synchro.rs", "interpolation.rs", "sinc.rs", "windows.rs",
            "sample.rs", "error.rs", "sinc_interpolator/mod.rs", "sinc_interpolator/sinc_interpolator_avx.rs",
            "sinc_interpolator/sinc_interpolator_sse.rs", "sinc_interpolator/sinc_interpolator_neon.rs"]


def strip_log_macros(body):
    """remove trace!/debug!/info!/warn!/error! invocations (compiled out: the `log` feature is off)"""
    out = []
    i = 0
    pat = re.compile(r"\b(trace|debug|info|warn|error)!\s*\(")
    while True:
        m = pat.search(body, i)
        if not m:
            out.append(body[i:])
            break
        out.append(body[i:m.start()])
        depth = 0
        j = m.end() - 1
        while j < len(body):
            if body[j] == "(":
                depth += 1
            elif body[j] == ")":
                depth -= 1
                if depth == 0:
                    break
            j += 1
        i = j + 1
    return "".join(out)


def collect_functions(item):
    """all fn items outside #[cfg(test)]: list of (owner type or '', name, body)"""
    fns = []
    for rel in RS_FILES:
        path = os.path.join(SRC, rel)
        if not os.path.exists(path):
            raise TranslateError(item, f"source file {rel} missing")
        src = strip_comments(open(path).read())
        cut = src.find("#[cfg(test)]")
        if cut >= 0:
            src = src[:cut]
        # impl blocks
        spans = []
        for m in re.finditer(r"\bimpl\b[^{;]*?\bfor\s+(\w+)[^{;]*\{|\bimpl\b\s*(?:<[^>]*>)?\s*(\w+)[^{;]*\{", src):
            owner = m.group(1) or m.group(2)
            try:
                _, end = block_after(src, m.end() - 1, item)
            except Exception:
                continue
            spans.append((m.end() - 1, end, owner))
        # trait blocks (default methods)
        for m in re.finditer(r"\btrait\s+(\w+)[^{;]*\{", src):
            try:
                _, end = block_after(src, m.end() - 1, item)
            except Exception:
                continue
            spans.append((m.end() - 1, end, "trait " + m.group(1)))
        for m in re.finditer(r"\bfn\s+(\w+)\b", src):
            name = m.group(1)
            # skip generics (nested angle brackets) up to the opening parenthesis of the parameter list
            k = m.end()
            adepth = 0
            while k < len(src):
                if src[k] == "<":
                    adepth += 1
                elif src[k] == ">":
                    adepth -= 1
                elif src[k] == "(" and adepth == 0:
                    break
                elif src[k] in "{;":
                    break
                k += 1
            if k >= len(src) or src[k] != "(":
                continue
            k += 1
            depth = 1
            while k < len(src) and depth > 0:
                if src[k] == "(":
                    depth += 1
                elif src[k] == ")":
                    depth -= 1
                k += 1
            while k < len(src) and src[k] not in "{;":
                k += 1
            if k >= len(src) or src[k] == ";":
                continue
            body, _ = block_after(src, k, item)
            owner = ""
            best = None
            for a, b, o in spans:
                if a < m.start() < b and (best is None or a > best[0]):
                    best = (a, o)
            if best:
                owner = best[1]
            fns.append((owner, name, strip_log_macros(body), rel))
    return fns


def gen_effects(item="G6.effects"):
    fns = collect_functions(item)
    by_name = {}
    for owner, name, body, rel in fns:
        by_name.setdefault(name, []).append((owner, body, rel))
    macro_bodies = {}
    # macro implement_resampler! only forwards; its bodies are inside macro_rules and named like the trait methods

    def closure(owner, name):
        """crate functions reachable from owner::name, resolved by NAME (over-approximation)"""
        start = [(o, b, r) for (o, b, r) in by_name.get(name, []) if o == owner]
        if not start:
            # default method of the trait
            start = [(o, b, r) for (o, b, r) in by_name.get(name, []) if o == "trait Resampler"]
        if not start:
            raise TranslateError(item, f"{owner}::{name} not found")
        seen = set()
        sites = []
        work = [(owner + "::" + name, b) for (o, b, r) in start]
        while work:
            qn, body = work.pop()
            if qn in seen:
                continue
            seen.add(qn)
            for pat, label in ALLOC_PATTERNS:
                for _ in re.finditer(pat, body):
                    sites.append(f"{qn}: {label}")
            for m in re.finditer(r"\b([a-z_][a-z0-9_]*)\s*(?:::<[^>]*>)?\s*\(", body):
                callee = m.group(1)
                if callee in ("if", "while", "for", "match", "return", "as", "fn", "let", "in", "loop", "unsafe"):
                    continue
                # `.process(` on an FFT object is std-external; the crate's wrapper `process` is only reachable
                # through an explicit self.process / Resampler::process call
                pre = body[max(0, m.start() - 1):m.start()]
                for (o, b, r) in by_name.get(callee, []):
                    if callee in WRAPPERS and name not in WRAPPERS and not re.search(r"(self|Resampler::|rubato::Resampler::)\s*\.?\s*$", body[max(0, m.start() - 24):m.start()]):
                        continue
                    if callee == "new":
                        # constructors are never called on the real-time path unless written as Type::new( — count them
                        pass
                    work.append(((o + "::" if o else "") + callee, b))
        return seen, sites

    lines = []
    rt_rows = []
    wr_rows = []
    for ti, ty in enumerate(RS_TYPES):
        for mi, mname in enumerate(RT_METHODS):
            reach, sites = closure(ty, mname)
            rt_rows.append((ti, mi, len(reach), len(sites), ty, mname, sites))
        for mi, mname in enumerate(WRAPPERS):
            reach, sites = closure(ty, mname)
            wr_rows.append((ti, mi, len(reach), len(sites), ty, mname, sites))
    out = ["/-- real-time methods: (type id, method id, crate functions reachable by name, allocating constructs on them).",
           "    Functions are resolved by NAME over all non-test code of the crate (an over-approximation of the call graph);",
           "    `trace!`/`debug!` invocations are removed (the `log` feature is off). -/",
           "def rtTable : List (Nat × Nat × Nat × Nat) := ["]
    rows = []
    for ti, mi, nr, ns, ty, mname, sites in rt_rows:
        rows.append(f"  ({ti}, {mi}, {nr}, {ns})  /- {ty}::{mname}" + ("  SITES: " + "; ".join(sites[:4]) if sites else "") + " -/")
    out.append(",\n".join(rows) + "]")
    out.append("")
    out.append("/-- the allocating convenience wrappers, same columns -/")
    out.append("def wrapperTable : List (Nat × Nat × Nat × Nat) := [")
    rows = []
    for ti, mi, nr, ns, ty, mname, sites in wr_rows:
        rows.append(f"  ({ti}, {mi}, {nr}, {ns})  /- {ty}::{mname} -/")
    out.append(",\n".join(rows) + "]")
    out.append("")
    out.append(f"def nTypes : Nat := {len(RS_TYPES)}")
    out.append(f"def nRtMethods : Nat := {len(RT_METHODS)}")
    return "\n".join(out)



# ----------------------------------------------------------------------------- G7 : typed size/ratio formulas
class TExpr:
    """typed expression translator for the scalar formulas of the resamplers (usize / isize / f64 / f32 / bool).

    Types: N usize, I isize, F f64, S f32, B bool, '?' untyped literal.  f32 values are held in ρ and combined with
    add32/sub32/mul32/div32, f64 values with the ρ operators, usize values with Nat arithmetic."""

    def __init__(self, toks, item, ftypes, consts):
        self.t = toks
        self.i = 0
        self.item = item
        self.ftypes = ftypes      # field name -> 'N' | 'F'
        self.consts = consts      # constant name -> (lean, type)
        self.params = []          # (lean name, type) in order of first use

    def peek(self):
        return self.t[self.i] if self.i < len(self.t) else ("eof", "")

    def next(self):
        tok = self.peek()
        self.i += 1
        return tok

    def expect(self, v):
        k, x = self.next()
        if x != v:
            raise TranslateError(self.item, f"expected {v!r}, got {x!r}")

    def fail(self, what):
        raise TranslateError(self.item, f"unsupported construct: {what}")

    def param(self, name, ty):
        if (name, ty) not in self.params:
            self.params.append((name, ty))
        return name

    # --- literals adopt the type of the other operand
    def coerce_lit(self, e, ty):
        lean, t = e
        if t != "?":
            return e
        text = lean
        if ty == "N":
            if "." in text:
                self.fail(f"float literal {text} used as usize")
            return (text, "N")
        if ty == "I":
            return (f"({text} : Int)", "I")
        if ty == "F":
            return (lit_to_lean(text if "." in text else text + ".0"), "F")
        if ty == "S":
            return (f"(RNum.n32 {lit_to_lean(text if '.' in text else text + '.0')})", "S")
        self.fail(f"literal {text} in context {ty}")

    def binop(self, op, a, b):
        if a[1] == "?" and b[1] == "?":
            # two literals: f64 constant folding, e.g. 1.0 / 5040.0
            a = self.coerce_lit(a, "F")
        if a[1] == "?":
            a = self.coerce_lit(a, b[1])
        if b[1] == "?":
            b = self.coerce_lit(b, a[1])
        if a[1] != b[1]:
            self.fail(f"operands of {op} have types {a[1]} and {b[1]}")
        ty = a[1]
        if op in ("+", "-", "*", "/"):
            if ty in ("N", "I", "F"):
                return (f"({a[0]} {op} {b[0]})", ty)
            if ty == "S":
                fn = {"+": "add32", "-": "sub32", "*": "mul32", "/": "div32"}[op]
                return (f"(RNum.{fn} {a[0]} {b[0]})", "S")
        if op in (">=", "<=", "<", ">"):
            if ty in ("F", "S"):
                fn = {">=": "ge", "<=": "le", "<": "lt", ">": "gt"}[op]
                if fn == "gt":
                    return (f"(RNum.lt {b[0]} {a[0]})", "B")
                return (f"(RNum.{fn} {a[0]} {b[0]})", "B")
            if ty in ("N", "I"):
                return (f"(decide ({a[0]} {op.replace('>=', '≥').replace('<=', '≤')} {b[0]}))", "B")
        if op in ("==", "!=") and ty in ("N", "I"):
            return (f"(decide ({a[0]} {'=' if op == '==' else '≠'} {b[0]}))", "B")
        if op in ("&&", "||") and ty == "B":
            return (f"({a[0]} {op} {b[0]})", "B")
        self.fail(f"operator {op} on type {ty}")

    PREC = {"||": 1, "&&": 2, ">=": 3, "<=": 3, "<": 3, ">": 3, "==": 3, "!=": 3, "+": 10, "-": 10, "*": 20, "/": 20}

    def expr(self, rbp=0):
        left = self.unary()
        while True:
            k, x = self.peek()
            # two-character operators arrive as two tokens
            op = x
            nxt = self.t[self.i + 1][1] if self.i + 1 < len(self.t) else ""
            width = 1
            if x in ("<", ">") and nxt == "=":
                op, width = x + "=", 2
            elif x == "=" and nxt == "=":
                op, width = "==", 2
            elif x == "!" and nxt == "=":
                op, width = "!=", 2
            elif x == "&" and nxt == "&":
                op, width = "&&", 2
            elif x == "|" and nxt == "|":
                op, width = "||", 2
            if op in self.PREC and self.PREC[op] > rbp:
                self.i += width
                right = self.expr(self.PREC[op])
                left = self.binop(op, left, right)
            else:
                return left

    def unary(self):
        k, x = self.peek()
        if x == "-":
            self.next()
            e = self.unary()
            if e[1] == "?":
                e = self.coerce_lit(e, "F")
            if e[1] in ("F", "S", "I"):
                return (f"(- {e[0]})", e[1])
            self.fail("unary minus on " + e[1])
        e = self.postfix(self.primary())
        return e

    def postfix(self, e):
        while True:
            k, x = self.peek()
            if x == "as":
                self.next()
                k2, ty = self.next()
                e = self.cast(e, ty)
            elif x == ".":
                k2, name = self.t[self.i + 1]
                if name in ("ceil", "floor", "round"):
                    self.i += 2
                    self.expect("(")
                    self.expect(")")
                    if e[1] == "?":
                        e = self.coerce_lit(e, "F")
                    if e[1] not in ("F", "S"):
                        self.fail(f".{name}() on type {e[1]}")
                    e = (f"(RNum.{name} {e[0]})", e[1])
                elif name in ("max", "min"):
                    self.i += 2
                    self.expect("(")
                    arg = self.expr()
                    self.expect(")")
                    if e[1] == "?":
                        e = self.coerce_lit(e, arg[1])
                    arg = self.coerce_lit(arg, e[1])
                    if e[1] != "N" or arg[1] != "N":
                        self.fail(f".{name}() on types {e[1]}, {arg[1]}")
                    e = (f"(Nat.{name} {e[0]} {arg[0]})", "N")
                else:
                    return e
            else:
                return e

    def cast(self, e, ty):
        lean, t = e
        tgt = {"f64": "F", "f32": "S", "usize": "N", "isize": "I"}.get(ty)
        if tgt is None:
            self.fail(f"cast to {ty}")
        if t == "?":
            return self.coerce_lit(e, tgt)
        if t == tgt:
            return e
        table = {("N", "F"): "(RNum.ofNat (ρ := ρ) {})", ("N", "S"): "(RNum.ofNat32 (ρ := ρ) {})", ("F", "S"): "(RNum.n32 {})",
                 ("F", "N"): "(RNum.toNat {})", ("S", "N"): "(RNum.toNat {})", ("F", "I"): "(RNum.toInt {})",
                 ("S", "I"): "(RNum.toInt {})", ("I", "F"): "(RNum.ofInt {})", ("N", "I"): "(Int.ofNat {})",
                 ("S", "F"): "{}"}
        if (t, tgt) not in table:
            self.fail(f"cast {t} -> {tgt}")
        return (table[(t, tgt)].format(lean), tgt)

    def primary(self):
        k, x = self.next()
        if x == "(":
            e = self.expr()
            self.expect(")")
            return e
        if k in ("float", "int"):
            return (x, "?")
        if k == "id":
            if x == "self":
                self.expect(".")
                k2, name = self.next()
                # self.interpolator.len()
                if name == "interpolator":
                    self.expect(".")
                    k3, m = self.next()
                    if m != "len":
                        self.fail(f"self.interpolator.{m}")
                    self.expect("(")
                    self.expect(")")
                    return (self.param("sinc_len", "N"), "N")
                k3, nx = self.peek()
                if nx == "(":
                    self.fail(f"method call self.{name}()")
                if name not in self.ftypes:
                    self.fail(f"field self.{name} of unknown type")
                return (self.param(name, self.ftypes[name]), self.ftypes[name])
            if x == "if":
                # `if c { a } else { b }` as an expression
                c = self.expr()
                if c[1] != "B":
                    self.fail("if condition is not a bool")
                self.expect("{")
                a = self.expr()
                self.expect("}")
                self.expect("else")
                self.expect("{")
                b = self.expr()
                self.expect("}")
                if a[1] == "?":
                    a = self.coerce_lit(a, b[1])
                b = self.coerce_lit(b, a[1])
                if a[1] != b[1]:
                    self.fail(f"if branches have types {a[1]} and {b[1]}")
                return (f"(if {c[0]} then {a[0]} else {b[0]})", a[1])
            if x == "calculate_cutoff":
                # calculate_cutoff::<f32>(n, WindowFunction::W): an abstract function parameter named after the window
                for tok in ("::", "<", "f32", ">", "("):
                    self.expect(tok)
                n = self.expr()
                self.expect(",")
                self.expect("WindowFunction")
                self.expect("::")
                k2, w = self.next()
                self.expect(")")
                if n[1] != "N":
                    self.fail("calculate_cutoff on a non-usize length")
                return (f"({self.param('cutoffOf_' + w, 'C')} {n[0]})", "S")
            if x == "integer":
                # num_integer::gcd on usize
                self.expect("::")
                k2, fnm = self.next()
                if fnm != "gcd":
                    self.fail(f"integer::{fnm}")
                self.expect("(")
                a = self.expr()
                self.expect(",")
                b = self.expr()
                self.expect(")")
                if a[1] != "N" or b[1] != "N":
                    self.fail("integer::gcd on non-usize operands")
                return (f"(Nat.gcd {a[0]} {b[0]})", "N")
            if x in self.consts:
                return self.consts[x]
            if x in self.ftypes:
                return (self.param(x, self.ftypes[x]), self.ftypes[x])
            self.fail(f"identifier {x}")
        self.fail(f"token {x!r}")

    def done(self):
        if self.i != len(self.t):
            raise TranslateError(self.item, f"trailing tokens {self.t[self.i:self.i+4]}")


def struct_field_types(src, name, item):
    m = re.search(r"pub struct\s+" + name + r"\s*<T>\s*\{", src)
    if not m:
        raise TranslateError(item, f"struct {name} not found")
    body, _ = block_after(src, m.end() - 1, item)
    out = {}
    for fm in re.finditer(r"(\w+)\s*:\s*([\w<>:\[\] ,]+?),", body):
        ty = fm.group(2).strip()
        if ty == "usize":
            out[fm.group(1)] = "N"
        elif ty == "f64":
            out[fm.group(1)] = "F"
    return out


def impl_method_body(src, ty, method, item, trait=True):
    pat = (r"impl<T>\s+Resampler<T>\s+for\s+" + ty + r"<T>") if trait else (r"impl<T>\s+" + ty + r"<T>")
    m = re.search(pat, src)
    if not m:
        raise TranslateError(item, f"impl block of {ty} not found")
    impl, _ = block_after(src, m.end(), item)
    _, body = fn_body(impl, method, item)
    return body


def lean_params(params):
    return " ".join(f"({n} : {'Nat' if t == 'N' else ('Nat → ρ' if t == 'C' else 'ρ')})" for n, t in params)


def gen_formula(item, lean_name, text, ftypes, consts, want_type, doc, extra_locals=None):
    ft = dict(ftypes)
    if extra_locals:
        ft.update(extra_locals)
    p = TExpr(lex(text, item), item, ft, consts)
    e = p.expr()
    p.done()
    if e[1] == "?":
        e = p.coerce_lit(e, want_type)
    if e[1] != want_type:
        raise TranslateError(item, f"expression has type {e[1]}, expected {want_type}")
    lty = {"N": "Nat", "F": "ρ", "S": "ρ", "B": "Bool", "I": "Int"}[want_type]
    return (f"/-- {doc} -/\ndef {lean_name} {{ρ : Type}} [RNum ρ] {lean_params(p.params)} : {lty} :=\n  {e[0]}",
            [n for n, _ in p.params])


LAST_BODY = [None]
LAST_OWN = [None]
# locals that the loops update by design (the formulas are about their initial values / the values at the point of use)
REBIND_EXEMPT = {"t_ratio", "idx", "frames_in"}


def find_stmt(body, pattern, item):
    m = re.search(pattern, body, re.S)
    if not m:
        raise TranslateError(item, f"statement not found: {pattern}")
    LAST_BODY[0] = body
    own = re.match(r"let\\s\+(?:mut\\s\+)?(\w+)", pattern)
    LAST_OWN[0] = own.group(1) if own else None
    return m.group(1).strip()


def check_not_rebound(item, body, names, own=None):
    """a local or parameter a regenerated formula reads must have ONE definition in the function it was taken from: a second
    `let x = ..` (shadowing) or an assignment to it would make the extracted expression mean something else"""
    for n in names:
        if n in REBIND_EXEMPT:
            continue
        lets = len(re.findall(r"\blet\s+(?:mut\s+)?" + re.escape(n) + r"\b", body))
        if n != own and re.search(r"\blet\s+(?:mut\s+)?" + re.escape(n) + r"\b\s*(?::[^=;]+)?=[^;]*(?<![\w.:])" + re.escape(n) + r"\b(?!\s*\()", body):
            raise TranslateError(item, f"`{n}` is re-bound in terms of itself (`let {n} = .. {n} ..`) in the function the formula "
                                       "was taken from")
        assigns = len(re.findall(r"(?<![\w.])" + re.escape(n) + r"\s*(?:[-+*/%]|<<|>>)?=(?!=)", body)) - lets
        if lets > 1 or assigns > 0:
            raise TranslateError(item, f"`{n}` is bound or assigned more than once in the function the formula was taken from "
                                       f"({lets} let, {max(assigns, 0)} assignment)")


def single_expr(body, item):
    b = body.strip()
    b = re.sub(r"^trace!\s*\([^;]*\);\s*", "", b)
    if ";" in b:
        raise TranslateError(item, f"body is not a single expression: {b[:60]!r}")
    return b


def gen_formulas(item_prefix="G7"):
    out = []
    sigs = {}
    fast = strip_comments(read("asynchro_fast.rs"))
    sinc = strip_comments(read("asynchro_sinc.rs"))
    consts_fast = {"POLYNOMIAL_LEN_U": ("Fast.polyLen", "N"), "POLYNOMIAL_LEN_I": ("(Int.ofNat Fast.polyLen)", "I")}
    ft = {"FastFixedIn": struct_field_types(fast, "FastFixedIn", item_prefix),
          "FastFixedOut": struct_field_types(fast, "FastFixedOut", item_prefix),
          "SincFixedIn": struct_field_types(sinc, "SincFixedIn", item_prefix),
          "SincFixedOut": struct_field_types(sinc, "SincFixedOut", item_prefix)}
    RANGE = r"if\s+((?:\(new_ratio.*?)\s*)\{\s*if\s*!ramp"

    def add(name, text, fts, consts, ty, doc, loc=None):
        item = f"{item_prefix}.{name}"
        d, params = gen_formula(item, name, text, fts, consts, ty, doc, loc)
        if LAST_BODY[0] is not None and loc:
            check_not_rebound(item, LAST_BODY[0], [p for p in params if p in loc], LAST_OWN[0])
        LAST_BODY[0] = None
        out.append(d)
        out.append("")
        sigs[name] = params

    # ---- FastFixedIn
    T, src_ = "FastFixedIn", fast
    add("fastIn_output_frames_max", single_expr(impl_method_body(src_, T, "output_frames_max", "G7"), "G7"), ft[T], consts_fast, "N", "FastFixedIn::output_frames_max")
    add("fastIn_output_frames_next", single_expr(impl_method_body(src_, T, "output_frames_next", "G7"), "G7"), ft[T], consts_fast, "N", "FastFixedIn::output_frames_next")
    add("fastIn_output_delay", single_expr(impl_method_body(src_, T, "output_delay", "G7"), "G7"), ft[T], consts_fast, "N", "FastFixedIn::output_delay")
    add("fastIn_needed_len", find_stmt(impl_method_body(src_, T, "process_into_buffer", "G7"), r"let\s+needed_len\s*=\s*(.*?);", "G7.fastIn_needed_len"), ft[T], consts_fast, "N", "FastFixedIn::process_into_buffer: needed_len")
    add("fastIn_range_test", find_stmt(impl_method_body(src_, T, "set_resample_ratio", "G7"), RANGE, "G7.fastIn_range_test"), ft[T], consts_fast, "B", "FastFixedIn::set_resample_ratio: accepted range", {"new_ratio": "F"})
    # ---- FastFixedOut
    T = "FastFixedOut"
    add("fastOut_input_frames_max", single_expr(impl_method_body(src_, T, "input_frames_max", "G7"), "G7"), ft[T], consts_fast, "N", "FastFixedOut::input_frames_max")
    add("fastOut_output_delay", single_expr(impl_method_body(src_, T, "output_delay", "G7"), "G7"), ft[T], consts_fast, "N", "FastFixedOut::output_delay")
    add("fastOut_needed_after", find_stmt(impl_method_body(src_, T, "process_into_buffer", "G7"), r"self\.needed_input_size\s*=\s*(.*?);", "G7.fastOut_needed_after"), ft[T], consts_fast, "N", "FastFixedOut::process_into_buffer: next needed_input_size")
    add("fastOut_needed_set", find_stmt(impl_method_body(src_, T, "set_resample_ratio", "G7"), r"self\.needed_input_size\s*=\s*(.*?);", "G7.fastOut_needed_set"), ft[T], consts_fast, "N", "FastFixedOut::set_resample_ratio: needed_input_size")
    add("fastOut_needed_reset", find_stmt(impl_method_body(src_, T, "reset", "G7"), r"self\.needed_input_size\s*=\s*(.*?);", "G7.fastOut_needed_reset"), ft[T], consts_fast, "N", "FastFixedOut::reset: needed_input_size")
    newb = impl_method_body(src_, T, "new", "G7", trait=False)
    add("fastOut_needed_new", find_stmt(newb, r"let\s+needed_input_size\s*=\s*(.*?);", "G7.fastOut_needed_new"), ft[T], consts_fast, "N", "FastFixedOut::new: needed_input_size", {"resample_ratio": "F", "chunk_size": "N"})
    add("fastOut_buffer_len_new", find_stmt(newb, r"let\s+buffer_channel_length\s*=\s*(.*?);", "G7.fastOut_buffer_len_new"), ft[T], consts_fast, "N", "FastFixedOut::new: buffer_channel_length", {"max_resample_ratio_relative": "F", "needed_input_size": "N"})
    add("fastOut_range_test", find_stmt(impl_method_body(src_, T, "set_resample_ratio", "G7"), RANGE, "G7.fastOut_range_test"), ft[T], consts_fast, "B", "FastFixedOut::set_resample_ratio: accepted range", {"new_ratio": "F"})
    # ---- SincFixedIn
    T, src_ = "SincFixedIn", sinc
    m = re.search(r"fn\s+calc_needed_len\b", src_)
    add("sincIn_calc_needed_len", single_expr(fn_body(src_, "calc_needed_len", "G7")[1], "G7"), ft[T], {}, "N", "SincFixedIn::calc_needed_len (output_frames_next)")
    add("sincIn_output_frames_max", single_expr(impl_method_body(src_, T, "output_frames_max", "G7"), "G7"), ft[T], {}, "N", "SincFixedIn::output_frames_max")
    add("sincIn_output_delay", single_expr(impl_method_body(src_, T, "output_delay", "G7"), "G7"), ft[T], {}, "N", "SincFixedIn::output_delay")
    add("sincIn_range_test", find_stmt(impl_method_body(src_, T, "set_resample_ratio", "G7"), RANGE, "G7.sincIn_range_test"), ft[T], {}, "B", "SincFixedIn::set_resample_ratio: accepted range", {"new_ratio": "F"})
    # ---- SincFixedOut
    T = "SincFixedOut"
    add("sincOut_update_needed_len", find_stmt(fn_body(src_, "update_needed_len", "G7")[1], r"self\.needed_input_size\s*=\s*(.*?);", "G7.sincOut_update_needed_len"), ft[T], {}, "N", "SincFixedOut::update_needed_len")
    add("sincOut_input_frames_max", single_expr(impl_method_body(src_, T, "input_frames_max", "G7"), "G7"), ft[T], {}, "N", "SincFixedOut::input_frames_max")
    add("sincOut_output_delay", single_expr(impl_method_body(src_, T, "output_delay", "G7"), "G7"), ft[T], {}, "N", "SincFixedOut::output_delay")
    add("sincOut_needed_reset", find_stmt(impl_method_body(src_, T, "reset", "G7"), r"self\.needed_input_size\s*=\s*(.*?);", "G7.sincOut_needed_reset"), ft[T], {}, "N", "SincFixedOut::reset: needed_input_size")
    m = re.search(r"impl<T>\s+SincFixedOut<T>", src_)
    implb, _ = block_after(src_, m.end(), "G7")
    newb = fn_body(implb, "new_with_interpolator", "G7")[1]
    newb = newb.replace("interpolator.len()", "self.interpolator.len()")
    add("sincOut_needed_new", find_stmt(newb, r"let\s+needed_input_size\s*=\s*(.*?);", "G7.sincOut_needed_new"), ft[T], {}, "N", "SincFixedOut::new_with_interpolator: needed_input_size", {"resample_ratio": "F", "chunk_size": "N"})
    add("sincOut_buffer_len_new", find_stmt(newb, r"let\s+buffer_channel_length\s*=\s*(.*?);", "G7.sincOut_buffer_len_new"), ft[T], {}, "N", "SincFixedOut::new_with_interpolator: buffer_channel_length", {"max_resample_ratio_relative": "F", "needed_input_size": "N"})
    add("sincOut_range_test", find_stmt(impl_method_body(src_, T, "set_resample_ratio", "G7"), RANGE, "G7.sincOut_range_test"), ft[T], {}, "B", "SincFixedOut::set_resample_ratio: accepted range", {"new_ratio": "F"})
    # ---- loop control of the four asynchronous process_into_buffer bodies, and the initial / reset read position
    LOOPL = {"t_ratio": "F", "t_ratio_end": "F", "approximate_nbr_frames": "F", "idx": "F", "sinc_len": "N"}
    consts_i = {"POLYNOMIAL_LEN_U": ("Fast.polyLen", "N"), "POLYNOMIAL_LEN_I": ("(Int.ofNat Fast.polyLen)", "I")}
    for T, pre, src_, cs in (("FastFixedIn", "fastIn", fast, consts_i), ("SincFixedIn", "sincIn", sinc, {}),
                             ("FastFixedOut", "fastOut", fast, consts_i), ("SincFixedOut", "sincOut", sinc, {})):
        pb = impl_method_body(src_, T, "process_into_buffer", "G7")
        add(f"{pre}_loop_t_ratio", find_stmt(pb, r"let\s+mut\s+t_ratio\s*=\s*(.*?);", f"G7.{pre}_loop_t_ratio"), ft[T], cs, "F", f"{T}::process_into_buffer: t_ratio", LOOPL)
        add(f"{pre}_loop_t_ratio_end", find_stmt(pb, r"let\s+t_ratio_end\s*=\s*(.*?);", f"G7.{pre}_loop_t_ratio_end"), ft[T], cs, "F", f"{T}::process_into_buffer: t_ratio_end", LOOPL)
        if pre.endswith("In"):
            add(f"{pre}_loop_approx_frames", find_stmt(pb, r"let\s+approximate_nbr_frames\s*=\s*(.*?);", f"G7.{pre}_loop_approx_frames"), ft[T], cs, "F", f"{T}::process_into_buffer: approximate_nbr_frames", LOOPL)
            add(f"{pre}_loop_end_idx", find_stmt(pb, r"let\s+end_idx\s*=\s*(.*?);", f"G7.{pre}_loop_end_idx"), ft[T], cs, "I", f"{T}::process_into_buffer: end_idx", LOOPL)
        add(f"{pre}_loop_increment", find_stmt(pb, r"let\s+t_ratio_increment\s*=\s*(.*?);", f"G7.{pre}_loop_increment"), ft[T], cs, "F", f"{T}::process_into_buffer: t_ratio_increment", LOOPL)
        add(f"{pre}_loop_last_index", find_stmt(pb, r"self\.last_index\s*=\s*(.*?);", f"G7.{pre}_loop_last_index"), ft[T], cs, "F", f"{T}::process_into_buffer: last_index carried to the next call", LOOPL)
        rb = impl_method_body(src_, T, "reset", "G7")
        add(f"{pre}_reset_last_index", find_stmt(rb, r"self\.last_index\s*=\s*(.*?);", f"G7.{pre}_reset_last_index"), ft[T], cs, "F", f"{T}::reset: last_index", LOOPL)
        if T.startswith("Fast"):
            nb = impl_method_body(src_, T, "new", "G7", trait=False)
        else:
            m2 = re.search(r"impl<T>\s+" + T + r"<T>", src_)
            ib, _ = block_after(src_, m2.end(), "G7")
            nb = fn_body(ib, "new_with_interpolator", "G7")[1].replace("interpolator.len()", "self.interpolator.len()")
        add(f"{pre}_new_last_index", find_stmt(nb, r"\blast_index\s*:\s*(.*?),\s*\n", f"G7.{pre}_new_last_index"), ft[T], cs, "F", f"{T} constructor: last_index", LOOPL)
    loop_sigs = {k: sigs.pop(k) for k in list(sigs) if "_loop_" in k or k.endswith("_last_index")}
    # ---- ratio setters: relative setter = absolute setter at original*rel; body shape of the absolute setter
    rel_names = []
    for T, pre, src_, tail in (("FastFixedIn", "fastIn", fast, ""), ("FastFixedOut", "fastOut", fast, r"self\.needed_input_size\s*=\s*[^;]*;\s*"),
                               ("SincFixedIn", "sincIn", sinc, ""), ("SincFixedOut", "sincOut", sinc, r"self\.update_needed_len\(\);\s*")):
        rb = strip_log_macros(impl_method_body(src_, T, "set_resample_ratio_relative", "G7"))
        mrel = re.match(r"[\s;]*let\s+new_ratio\s*=\s*(.*?);\s*self\.set_resample_ratio\(new_ratio,\s*ramp\)\s*$", rb, re.S)
        if not mrel:
            raise TranslateError(f"G7.{pre}_rel_new_ratio", f"{T}::set_resample_ratio_relative is not `let new_ratio = ..; self.set_resample_ratio(new_ratio, ramp)`")
        add(f"{pre}_rel_new_ratio", mrel.group(1), ft[T], {}, "F", f"{T}::set_resample_ratio_relative: the absolute ratio it requests", {"rel_ratio": "F"})
        rel_names.append(f"{pre}_rel_new_ratio")
        sb = strip_log_macros(impl_method_body(src_, T, "set_resample_ratio", "G7"))
        shape = (r"[\s;]*if\s+.*?\{\s*if\s*!ramp\s*\{\s*self\.resample_ratio\s*=\s*new_ratio;\s*\}\s*self\.target_ratio\s*=\s*new_ratio;\s*"
                 + tail + r"Ok\(\(\)\)\s*\}\s*else\s*\{\s*Err\(ResampleError::RatioOutOfBounds\s*\{\s*provided:\s*new_ratio,\s*"
                 r"original:\s*self\.resample_ratio_original,\s*max_relative_ratio:\s*self\.max_relative_ratio,\s*\}\)\s*\}\s*$")
        if not re.match(shape, sb, re.S):
            raise TranslateError(f"G7.{pre}_set_ratio_body", f"{T}::set_resample_ratio does not have the shape `if <range> {{ if !ramp {{ self.resample_ratio = new_ratio; }} "
                                 "self.target_ratio = new_ratio; [needed size update;] Ok(()) } else { Err(RatioOutOfBounds{..}) }` the model assumes")
    rel_sigs = {k: sigs.pop(k) for k in rel_names}
    # ---- set_chunk_size: only the two sinc types override the trait default (ChunkSizeNotAdjustable)
    for T, pre in (("SincFixedIn", "sincIn"), ("SincFixedOut", "sincOut")):
        cb = impl_method_body(sinc, T, "set_chunk_size", "G7")
        mcs = re.match(r"\s*if\s+(.*?)\s*\{\s*return\s+Err\(ResampleError::InvalidChunkSize\s*\{\s*max:\s*self\.max_chunk_size,\s*"
                       r"requested:\s*chunksize,\s*\}\);\s*\}\s*self\.chunk_size\s*=\s*chunksize;\s*"
                       + (r"self\.update_needed_len\(\);\s*" if T == "SincFixedOut" else "") + r"Ok\(\(\)\)\s*$", cb, re.S)
        if not mcs:
            raise TranslateError(f"G7.{pre}_chunk_rejected", f"{T}::set_chunk_size is not `if <test> {{ return Err(InvalidChunkSize {{max: self.max_chunk_size, requested: chunksize}}) }} self.chunk_size = chunksize; "
                                 + ("self.update_needed_len(); " if T == "SincFixedOut" else "") + "Ok(())`")
        add(f"{pre}_chunk_rejected", mcs.group(1), ft[T], {}, "B", f"{T}::set_chunk_size: the request is rejected when", {"chunksize": "N"})
    for T, file_src in (("FastFixedIn", fast), ("FastFixedOut", fast)):
        m3 = re.search(r"impl<T>\s+Resampler<T>\s+for\s+" + T + r"<T>", file_src)
        ib3, _ = block_after(file_src, m3.end(), "G7")
        if re.search(r"\bfn\s+set_chunk_size\b", ib3):
            raise TranslateError("G7.set_chunk_size_overrides", f"{T} overrides set_chunk_size (the model assumes the trait default)")
    syn0 = strip_comments(read("synchro.rs"))
    if re.search(r"\bfn\s+set_chunk_size\b", syn0):
        raise TranslateError("G7.set_chunk_size_overrides", "an FFT resampler overrides set_chunk_size (the model assumes the trait default)")
    lib0 = strip_comments(read("lib.rs"))
    if not re.search(r"fn\s+set_chunk_size\(&mut\s+self,\s*_chunksize:\s*usize\)\s*->\s*ResampleResult<\(\)>\s*\{\s*Err\(ResampleError::ChunkSizeNotAdjustable\)\s*\}", lib0):
        raise TranslateError("G7.set_chunk_size_default", "the trait default of set_chunk_size is not Err(ChunkSizeNotAdjustable)")
    chunk_sigs = {k: sigs.pop(k) for k in ("sincIn_chunk_rejected", "sincOut_chunk_rejected")}
    # ---- make_interpolator: length rounding, cutoff scaling, and the arguments every kernel constructor receives
    mk = strip_log_macros(fn_body(sinc, "make_interpolator", "G7.mkInterp")[1])
    loc = {"sinc_len": "N", "resample_ratio": "F", "f_cutoff": "S"}
    add("mkInterp_sinc_len", find_stmt(mk, r"let\s+sinc_len\s*=\s*(.*?);", "G7.mkInterp_sinc_len"), {}, {}, "N",
        "make_interpolator: sinc_len rounded up to a multiple of 8 (through f32)", loc)
    add("mkInterp_f_cutoff", find_stmt(mk, r"let\s+f_cutoff\s*=\s*(if.*?\})\s*;", "G7.mkInterp_f_cutoff"), {}, {}, "S",
        "make_interpolator: cutoff scaled by the ratio when down-sampling (f32)", loc)
    calls = re.findall(r"(\w+Interpolator)::(?:<T>::)?new\(\s*(.*?)\s*\)", mk, re.S)
    names = [c[0] for c in calls]
    for need in ("AvxInterpolator", "SseInterpolator", "ScalarInterpolator"):
        if need not in names:
            raise TranslateError("G7.mkInterp_dispatch", f"make_interpolator does not construct {need}")
    arglists = {c[0]: [a.strip() for a in split_top(c[1]) if a.strip()] for c in calls}
    want_args = ["sinc_len", "oversampling_factor", "f_cutoff", "window"]
    for k, v in arglists.items():
        if v != want_args:
            raise TranslateError("G7.mkInterp_dispatch", f"{k}::new is called with {v}, expected {want_args}: "
                                 "the kernels selected by the dispatch would not be built from the same parameters")
    rest = mk[re.search(r"let\s+f_cutoff\s*=\s*if.*?\}\s*;", mk, re.S).end():]
    if re.search(r"\blet\s+(mut\s+)?(sinc_len|f_cutoff|oversampling_factor|window)\b", rest):
        raise TranslateError("G7.mkInterp_dispatch", "a constructor argument is rebound between the scaling and the dispatch")
    out.append("/-- make_interpolator: every kernel constructor of the dispatch receives `(sinc_len, oversampling_factor, f_cutoff, window)`")
    out.append("    with the rounded length and the scaled cutoff above (checked on the source text; kernels: "
               + ", ".join(names) + ") -/")
    out.append(f"def mkInterp_dispatch_kernels : Nat := {len(names)}")
    out.append("")
    # ---- the three synchronous (FFT) resamplers: block sizing and the frame bookkeeping
    mk_sigs = {k: sigs.pop(k) for k in ("mkInterp_sinc_len", "mkInterp_f_cutoff")}
    mk_sigs.update(loop_sigs)
    mk_sigs.update(chunk_sigs)
    mk_sigs.update(rel_sigs)
    async_sigs = dict(sigs)
    sigs.clear()
    sigs.update(mk_sigs)
    syn = strip_comments(read("synchro.rs"))
    NL = {"sample_rate_input": "N", "sample_rate_output": "N", "chunk_size_in": "N", "chunk_size_out": "N",
          "sub_chunks": "N", "gcd": "N", "min_chunk_in": "N", "min_chunk_out": "N", "wanted_subsize": "N",
          "fft_chunks": "N", "fft_size_in": "N", "fft_size_out": "N", "chunks_needed": "N"}
    for T, pre, minc in (("FftFixedInOut", "fftIo", "min_chunk_in"), ("FftFixedIn", "fftIn", "min_chunk_in"),
                         ("FftFixedOut", "fftOut", "min_chunk_out")):
        ftT = struct_field_types(syn, T, item_prefix)
        newb = impl_method_body(syn, T, "new", "G7", trait=False)
        names = ["gcd", minc] + (["wanted_subsize"] if T != "FftFixedInOut" else []) + ["fft_chunks", "fft_size_out", "fft_size_in"]
        if T == "FftFixedOut":
            names += ["chunks_needed", "frames_needed"]
        for nm in names:
            add(f"{pre}_new_{nm}", find_stmt(newb, r"let\s+" + nm + r"\s*=\s*(.*?);", f"G7.{pre}_new_{nm}"), {}, {}, "N",
                f"{T}::new: {nm}", NL)
        add(f"{pre}_output_delay", single_expr(impl_method_body(syn, T, "output_delay", "G7"), "G7"), ftT, {}, "N", f"{T}::output_delay")
        if T == "FftFixedOut":
            pb = impl_method_body(syn, T, "process_into_buffer", "G7")
            add("fftOut_proc_chunks_needed", find_stmt(pb, r"let\s+chunks_needed\s*=\s*(.*?);", "G7.fftOut_proc_chunks_needed"), ftT, {}, "N",
                "FftFixedOut::process_into_buffer: chunks_needed", {"frames_needed_out": "N"})
            add("fftOut_proc_frames_needed", find_stmt(pb, r"self\.frames_needed\s*=\s*(.*?);", "G7.fftOut_proc_frames_needed"), ftT, {}, "N",
                "FftFixedOut::process_into_buffer: frames_needed", {"chunks_needed": "N"})
            add("fftOut_input_frames_max", single_expr(impl_method_body(syn, T, "input_frames_max", "G7"), "G7"), ftT, {}, "N", "FftFixedOut::input_frames_max")
            rb = impl_method_body(syn, T, "reset", "G7")
            add("fftOut_reset_chunks_needed", find_stmt(rb, r"let\s+chunks_needed\s*=\s*(.*?);", "G7.fftOut_reset_chunks_needed"), ftT, {}, "N",
                "FftFixedOut::reset: chunks_needed")
            add("fftOut_reset_frames_needed", find_stmt(rb, r"self\.frames_needed\s*=\s*(.*?);", "G7.fftOut_reset_frames_needed"), ftT, {}, "N",
                "FftFixedOut::reset: frames_needed", {"chunks_needed": "N"})
        if T == "FftFixedIn":
            pb = impl_method_body(syn, T, "process_into_buffer", "G7")
            loc = {"next_saved_frames": "N", "nbr_chunks_ready": "N"}
            for nm in ("next_saved_frames", "nbr_chunks_ready", "needed_len"):
                add(f"fftIn_proc_{nm}", find_stmt(pb, r"let\s+" + nm + r"\s*=\s*(.*?);", f"G7.fftIn_proc_{nm}"), ftT, {}, "N",
                    f"FftFixedIn::process_into_buffer: {nm}", loc)
            add("fftIn_output_frames_next", single_expr(impl_method_body(syn, T, "output_frames_next", "G7"), "G7"), ftT, {}, "N", "FftFixedIn::output_frames_next")
            ob = impl_method_body(syn, T, "output_frames_max", "G7")
            loc = {"max_stored_frames": "N", "max_available_frames": "N", "max_subchunks_to_process": "N"}
            for nm in loc:
                add(f"fftIn_omax_{nm}", find_stmt(ob, r"let\s+" + nm + r"\s*=\s*(.*?);", f"G7.fftIn_omax_{nm}"), ftT, {}, "N",
                    f"FftFixedIn::output_frames_max: {nm}", loc)
            last = ob.strip().split(";")[-1].strip()
            add("fftIn_omax_result", last, ftT, {}, "N", "FftFixedIn::output_frames_max: result", loc)
    # ---- FftResampler (the per-block unit): cutoff, table arguments, tap scaling, number of bins kept
    ftU = {"fft_size_in": "N", "fft_size_out": "N"}
    m = re.search(r"impl<T>\s+FftResampler<T>", syn)
    if not m:
        raise TranslateError("G7.fftUnit", "impl FftResampler not found")
    implU, _ = block_after(syn, m.end(), "G7.fftUnit")
    newU = strip_log_macros(fn_body(implU, "new", "G7.fftUnit")[1])
    runU = fn_body(implU, "resample_unit", "G7.fftUnit")[1]
    add("fftUnit_cutoff", find_stmt(newU, r"let\s+cutoff\s*=\s*(if.*?\})\s*;", "G7.fftUnit_cutoff"), ftU, {}, "S",
        "FftResampler::new: anti-aliasing cutoff (f32)")
    add("fftUnit_new_len", find_stmt(runU, r"let\s+new_len\s*=\s*(if.*?\})\s*;", "G7.fftUnit_new_len"), ftU, {}, "N",
        "FftResampler::resample_unit: number of spectrum bins kept")
    ms = re.search(r"let\s+sinc\s*=\s*make_sincs::<T>\(\s*(\w+)\s*,\s*(\d+)\s*,\s*(\w+)\s*,\s*WindowFunction::(\w+)\s*\)\s*;", newU)
    if not ms or ms.group(1) != "fft_size_in" or ms.group(3) != "cutoff":
        raise TranslateError("G7.fftUnit_make_sincs", "FftResampler::new: `let sinc = make_sincs::<T>(fft_size_in, <k>, cutoff, WindowFunction::<W>)` not found")
    wname = ms.group(4)[0].lower() + ms.group(4)[1:]
    out.append(f"/-- FftResampler::new: `make_sincs::<T>(fft_size_in, {ms.group(2)}, cutoff, WindowFunction::{ms.group(4)})` -/")
    out.append(f"def fftUnit_sinc_factor : Nat := {ms.group(2)}")
    out.append(f"def fftUnit_window : Window := .{wname}")
    out.append("")
    mt = re.search(r"for\s*\(n,\s*f\)\s*in\s*filter_t\.iter_mut\(\)\.enumerate\(\)\.take\((\w+)\)\s*\{\s*\*f\s*=\s*sinc\[0\]\[n\]\s*/\s*T::coerce\((.*?)\)\s*;\s*\}", newU)
    if not mt or mt.group(1) != "fft_size_in":
        raise TranslateError("G7.fftUnit_taps", "FftResampler::new: tap loop `*f = sinc[0][n] / T::coerce(..)` over fft_size_in taps not found")
    add("fftUnit_tap_divisor", mt.group(2), ftU, {}, "N", "FftResampler::new: divisor of the filter taps")
    mb = re.search(r"let\s+mut\s+filter_t\s*:\s*Vec<T>\s*=\s*vec!\[T::zero\(\);\s*(.*?)\]\s*;", newU)
    if not mb:
        raise TranslateError("G7.fftUnit_filter_len", "FftResampler::new: filter_t allocation not found")
    add("fftUnit_filter_len", mb.group(1), ftU, {}, "N", "FftResampler::new: length of the zero-padded filter")
    # parameter orders, for the tie lemmas
    out.append("/-- which struct fields / locals each generated formula reads, in order of first use: a formula that starts reading a")
    out.append("    different field (e.g. `resample_ratio_original` instead of `resample_ratio`) changes this table -/")
    out.append("def formulaParams : List (String × List String) := [")
    out.append(",\n".join(f'  ("{k}", [{", ".join(chr(34) + p + chr(34) for p in v)}])' for k, v in async_sigs.items()) + "]")
    out.append("")
    out.append("/-- the same for `make_interpolator` and the formulas of the synchronous (FFT) resamplers -/")
    out.append("def fftFormulaParams : List (String × List String) := [")
    out.append(",\n".join(f'  ("{k}", [{", ".join(chr(34) + p + chr(34) for p in v)}])' for k, v in sigs.items()) + "]")
    return "\n".join(out)


# ------------------------------------------------------------------------------------------ G12: reset() restores every mutable field
RESET_READONLY_METHODS = {"len", "iter", "get", "as_ref", "nbr_sincs", "get_sinc_interpolated", "is_empty", "clone",
                          "as_slice", "first", "last", "contains", "ceil", "floor", "recip", "abs", "min", "max", "round",
                          "powi", "sqrt", "to_bits", "is_finite", "is_nan"}
RESET_SCRATCH = {"resampler"}      # FftResampler: its buffers are completely overwritten by resample_unit before they are read


def struct_fields(src, ty, item):
    m = re.search(r"pub\s+struct\s+" + ty + r"\s*<T>\s*", src)
    if not m:
        raise TranslateError(item, f"struct {ty} not found")
    body, _ = block_after(src, m.end(), item)
    fields = re.findall(r"(?:^|,|\{)\s*(?:pub(?:\([^)]*\))?\s+)?(\w+)\s*:", body)
    # re-scan robustly: one field per top-level comma
    out, depth, cur = [], 0, ""
    for ch in body:
        if ch in "<([{":
            depth += 1
        elif ch in ">)]}":
            depth -= 1
        if ch == "," and depth == 0:
            out.append(cur)
            cur = ""
        else:
            cur += ch
    if cur.strip():
        out.append(cur)
    names = []
    for f in out:
        mm = re.match(r"\s*(?:pub(?:\([^)]*\))?\s+)?(\w+)\s*:", f)
        if not mm:
            raise TranslateError(item, f"struct {ty}: cannot read field {f.strip()[:40]!r}")
        names.append(mm.group(1))
    return names


def all_methods(src, ty, item):
    """(name, body) of every fn in the inherent impl and the Resampler impl of `ty`"""
    res = []
    for pat in (r"impl<T>\s+" + ty + r"<T>", r"impl<T>\s+Resampler<T>\s+for\s+" + ty + r"<T>"):
        m = re.search(pat, src)
        if not m:
            raise TranslateError(item, f"impl block of {ty} not found")
        impl, _ = block_after(src, m.end(), item)
        pos = 0
        while True:
            mf = re.compile(r"\bfn\s+(\w+)\b").search(impl, pos)
            if not mf:
                break
            i = impl.index("{", mf.end())
            body, end = block_after(impl, i, item) if False else (None, None)
            # block_after expects the position BEFORE the opening brace
            body, end = block_after(impl, mf.end(), item)
            res.append((mf.group(1), body))
            pos = end
    return res


def field_writes(body, fields):
    w = set()
    for m in re.finditer(r"\bself\s*\.\s*(\w+)(?:\s*\[[^\]]*\])*\s*(?:=(?!=)|\+=|-=|\*=|/=)", body):
        w.add(m.group(1))
    for m in re.finditer(r"&mut\s+self\s*\.\s*(\w+)", body):
        w.add(m.group(1))
    for m in re.finditer(r"\bself\s*\.\s*(\w+)((?:\s*\[[^\]]*\])*)\s*\.\s*(\w+)\s*\(", body):
        if m.group(3) not in RESET_READONLY_METHODS:
            w.add(m.group(1))
    for m in re.finditer(r"\bin\s+self\s*\.\s*(\w+)\s*\.\s*iter_mut", body):
        w.add(m.group(1))
    return {f for f in w if f in fields}


def gen_reset_table(item="G12.reset"):
    ws = r"\s*"
    zero2 = re.compile(r"self\." + r"(\w+)" + ws + r"\.iter_mut\(\)" + ws + r"\.for_each\(\|(\w+)\|" + ws + r"\2\.iter_mut\(\)\.for_each\(\|(\w+)\|" + ws +
                       r"\*\3" + ws + r"=" + ws + r"T::zero\(\)\)\);")
    true1 = re.compile(r"self\.(\w+)\.iter_mut\(\)\.for_each\(\|(\w+)\|" + ws + r"\*\2" + ws + r"=" + ws + r"true\);")
    assign = re.compile(r"self\.(\w+)" + ws + r"=(?!=)" + ws + r"([^;]*);")
    local = re.compile(r"let" + ws + r"(\w+)" + ws + r"=" + ws + r"([^;]*);")
    rows = []
    for tid, (T, file) in enumerate(SEVEN):
        src = strip_comments(read(file))
        cut = src.find("#[cfg(test)]")
        if cut >= 0:
            src = src[:cut]
        fields = struct_fields(src, T, item)
        methods = all_methods(src, T, item)
        mutable = set()
        reset_body = None
        for name, body in methods:
            body = strip_log_macros(body)
            if name == "reset":
                reset_body = body
                continue
            if name in ("new", "new_with_interpolator"):
                continue
            mutable |= field_writes(body, fields)
        if reset_body is None:
            raise TranslateError(item, f"{T}::reset not found")
        restored = {}
        rest = reset_body.strip()
        while rest:
            m = zero2.match(rest)
            if m:
                restored[m.group(1)] = "every sample of every channel := 0"
                rest = rest[m.end():].lstrip()
                continue
            m = true1.match(rest)
            if m:
                restored[m.group(1)] = "every entry := true"
                rest = rest[m.end():].lstrip()
                continue
            m = assign.match(rest)
            if m:
                restored[m.group(1)] = ":= " + " ".join(m.group(2).split())
                rest = rest[m.end():].lstrip()
                continue
            m = local.match(rest)
            if m:
                rest = rest[m.end():].lstrip()
                continue
            raise TranslateError(item, f"{T}::reset: statement outside the grammar (whole-buffer zero fill, whole-mask true fill, "
                                       f"scalar assignment, let): {rest[:90]!r}")
        for f in restored:
            if f not in fields:
                raise TranslateError(item, f"{T}::reset assigns unknown field {f}")
        for fi, f in enumerate(fields):
            rows.append((tid, fi, f in mutable, f in restored, f in RESET_SCRATCH, T, f, restored.get(f, "")))
    out = ["/-- every field of the seven resampler structs: (type id, field index, written by some method other than the constructors and",
           "    reset, restored by reset() with a whole-buffer fill or an assignment, scratch storage that is overwritten before it is",
           "    read).  reset() statements outside that grammar (a partial fill, a loop over a sub-range) fail the translation. -/",
           "def resetTable : List (Nat × Nat × Bool × Bool × Bool) := ["]
    b = lambda x: "true" if x else "false"
    out.append(",\n".join(f"  ({t}, {fi}, {b(mu)}, {b(re_)}, {b(sc)})  /- {T}.{f}{(' ' + how) if how else ''} -/"
                          for t, fi, mu, re_, sc, T, f, how in rows) + "]")
    return "\n".join(out)


# ------------------------------------------------------------------------------------------ G13: storage allocated by the constructors
def gen_storage(item="G13.storage"):
    """the per-channel lengths of every Vec<Vec<T>> field the seven constructors allocate"""
    fast = strip_comments(read("asynchro_fast.rs"))
    sinc = strip_comments(read("asynchro_sinc.rs"))
    syn = strip_comments(read("synchro.rs"))
    consts_fast = {"POLYNOMIAL_LEN_U": ("Fast.polyLen", "N")}
    out = []
    sigs = []

    def ctor(src, T, fname):
        m = re.search(r"impl<T>\s+" + T + r"<T>", src)
        if not m:
            raise TranslateError(item, f"impl block of {T} not found")
        implb, _ = block_after(src, m.end(), item)
        return fn_body(implb, fname, item)[1]

    def one(name, body, T, local, consts, locs, doc):
        it = f"{item}.{name}"
        m = re.search(r"let\s+" + local + r"\s*(?::\s*Vec<Vec<T>>\s*)?=\s*vec!\[\s*vec!\[\s*T::zero\(\)\s*;\s*(.*?)\]\s*;\s*nbr_channels\s*\]\s*;", body, re.S)
        if not m:
            raise TranslateError(it, f"{T}: `let {local} = vec![vec![T::zero(); <len>]; nbr_channels];` not found")
        # the struct literal must take the field from that local (shorthand initialiser)
        lit = re.search(r"Ok\(\s*" + T + r"\s*\{(.*?)\}\s*\)", body, re.S)
        if not lit or not re.search(r"(?:^|,)\s*" + local + r"\s*(?:,|$)", lit.group(1)):
            raise TranslateError(it, f"{T}: the constructor does not initialise field `{local}` from the local of that name")
        d, params = gen_formula(it, name, m.group(1), {}, consts, "N", doc, locs)
        check_not_rebound(it, body, [p for p in params if p in locs])
        out.append(d)
        out.append("")
        sigs.append((name, params))

    b = ctor(fast, "FastFixedIn", "new")
    one("fastIn_buffer_len", b, "FastFixedIn", "buffer", consts_fast, {"chunk_size": "N"}, "FastFixedIn::new: frames per channel of `buffer`")
    b = ctor(sinc, "SincFixedIn", "new_with_interpolator").replace("interpolator.len()", "sinc_len")
    one("sincIn_buffer_len", b, "SincFixedIn", "buffer", {}, {"chunk_size": "N", "sinc_len": "N"}, "SincFixedIn::new_with_interpolator: frames per channel of `buffer`")
    L3 = {"chunk_size_in": "N", "chunk_size_out": "N", "fft_size_in": "N", "fft_size_out": "N"}
    b = ctor(syn, "FftFixedInOut", "new")
    one("fftIo_overlap_len", b, "FftFixedInOut", "overlaps", {}, L3, "FftFixedInOut::new: frames per channel of `overlaps`")
    b = ctor(syn, "FftFixedOut", "new")
    one("fftOut_overlap_len", b, "FftFixedOut", "overlaps", {}, L3, "FftFixedOut::new: frames per channel of `overlaps`")
    one("fftOut_output_buffer_len", b, "FftFixedOut", "output_buffers", {}, L3, "FftFixedOut::new: frames per channel of `output_buffers`")
    b = ctor(syn, "FftFixedIn", "new")
    one("fftIn_overlap_len", b, "FftFixedIn", "overlaps", {}, L3, "FftFixedIn::new: frames per channel of `overlaps`")
    one("fftIn_input_buffer_len", b, "FftFixedIn", "input_buffers", {}, L3, "FftFixedIn::new: frames per channel of `input_buffers`")
    out.append("/-- which locals each storage formula reads -/")
    out.append("def storageParams : List (String × List String) := [")
    out.append(",\n".join(f'  ("{k}", [{", ".join(chr(34) + p + chr(34) for p in v)}])' for k, v in sigs) + "]")
    return "\n".join(out)


# ------------------------------------------------------------------------------------------ G14: history carry and input load
def gen_refill(item="G14.refill"):
    """the two buffer-maintenance statements at the head of the four asynchronous process_into_buffer bodies:
    `buf.copy_within(A..B, C)` for every channel, then `self.buffer[chan][X..Y].copy_from_slice(&wave_in[chan][..N])` for the
    active ones -- A, B, C, X, Y, N as formulas"""
    fast = strip_comments(read("asynchro_fast.rs"))
    sinc = strip_comments(read("asynchro_sinc.rs"))
    consts_fast = {"POLYNOMIAL_LEN_U": ("Fast.polyLen", "N")}
    out, sigs = [], []
    ws = r"\s*"
    carry = re.compile(r"for" + ws + r"buf" + ws + r"in" + ws + r"self\.buffer\.iter_mut\(\)" + ws + r"\{" + ws +
                       r"buf\.copy_within\(" + ws + r"(.*?)\.\.(.*?)," + ws + r"([^,()]*?),?" + ws + r"\);" + ws + r"\}", re.S)
    load = re.compile(r"self\.buffer\[chan\]\[(.*?)\.\.(.*?)\]" + ws + r"\.copy_from_slice\(&wave_in(?:\[chan\])?\.as_ref\(\)\[\.\.(.*?)\]\);", re.S)
    for T, pre, src, cs in (("FastFixedIn", "fastIn", fast, consts_fast), ("FastFixedOut", "fastOut", fast, consts_fast),
                            ("SincFixedIn", "sincIn", sinc, {}), ("SincFixedOut", "sincOut", sinc, {})):
        pb = strip_log_macros(impl_method_body(src, T, "process_into_buffer", item))
        fts = struct_field_types(src, T, item)
        mc = carry.findall(pb)
        ml = load.findall(pb)
        if len(mc) != 1:
            raise TranslateError(f"{item}.{pre}_carry", f"{T}::process_into_buffer: expected exactly one `for buf in self.buffer.iter_mut() {{ buf.copy_within(a..b, c); }}`, found {len(mc)}")
        if len(ml) != 1:
            raise TranslateError(f"{item}.{pre}_load", f"{T}::process_into_buffer: expected exactly one `self.buffer[chan][x..y].copy_from_slice(&wave_in[chan].as_ref()[..n]);`, found {len(ml)}")
        if pb.index("copy_within") > pb.index("copy_from_slice(&wave_in"):
            raise TranslateError(f"{item}.{pre}_order", f"{T}::process_into_buffer loads the input before carrying the history over")
        # no other write to the buffer before the interpolation loop starts
        head = pb[:pb.index("let mut idx")] if "let mut idx" in pb else pb
        others = re.findall(r"self\.buffer\b[^;]*?(?:=(?!=)|\.(?:fill|swap|resize|clear|push|truncate|rotate_\w+)\s*\()", head)
        if others:
            raise TranslateError(f"{item}.{pre}_extra", f"{T}::process_into_buffer writes to the buffer outside the carry and the load: {others[0][:60]!r}")
        loc = {"sinc_len": "N"}
        for nm, text in zip(("carry_from", "carry_to", "carry_dest"), mc[0]):
            d, params = gen_formula(f"{item}.{pre}_{nm}", f"{pre}_{nm}", text.strip(), fts, cs, "N", f"{T}::process_into_buffer: copy_within {nm}", loc)
            out += [d, ""]
            sigs.append((f"{pre}_{nm}", params))
        for nm, text in zip(("load_from", "load_to", "load_len"), ml[0]):
            d, params = gen_formula(f"{item}.{pre}_{nm}", f"{pre}_{nm}", text.strip(), fts, cs, "N", f"{T}::process_into_buffer: input load {nm}", loc)
            out += [d, ""]
            sigs.append((f"{pre}_{nm}", params))
    out.append("/-- which fields / locals each buffer-maintenance formula reads -/")
    out.append("def refillParams : List (String × List String) := [")
    out.append(",\n".join(f'  ("{k}", [{", ".join(chr(34) + p + chr(34) for p in v)}])' for k, v in sigs) + "]")
    return "\n".join(out)


# ------------------------------------------------------------------------------------------ G15: data movement of the FFT resamplers
def gen_fft_moves(item="G15.fft_moves"):
    """the statements of the three synchronous process_into_buffer bodies that move frames between the caller's buffers, the
    internal staging buffers and the per-block unit: slice bounds, block sizes, carry-over ranges, and the counts returned"""
    syn = strip_comments(read("synchro.rs"))
    out, sigs = [], []
    ws = r"\s*"

    def norm(s):
        return re.sub(r"\s+", "", s)

    cur_body = [""]

    def f(pre, name, text, fts, loc, doc, ty="N"):
        d, params = gen_formula(f"{item}.{pre}_{name}", f"{pre}_{name}", text.strip(), fts, {}, ty, doc, loc)
        check_not_rebound(f"{item}.{pre}_{name}", cur_body[0], [p for p in params if p in loc])
        out.extend([d, ""])
        sigs.append((f"{pre}_{name}", params))

    def need(pb, pat, what, T):
        m = re.search(pat, pb, re.S)
        if not m:
            raise TranslateError(f"{item}.{what}", f"{T}::process_into_buffer: statement not found: {what}")
        return m

    # ---- FftFixedInOut
    T, pre = "FftFixedInOut", "fftIo"
    fts = struct_field_types(syn, T, item)
    pb = strip_log_macros(impl_method_body(syn, T, "process_into_buffer", item))
    cur_body[0] = pb
    m = need(pb, r"for" + ws + r"\((\w+)," + ws + r"active\)" + ws + r"in" + ws + r"self\.channel_mask\.iter\(\)\.enumerate\(\)" + ws + r"\{" + ws +
             r"if" + ws + r"\*active" + ws + r"\{" + ws + r"self\.resampler\.resample_unit\(" + ws +
             r"&wave_in\[\1\]\.as_ref\(\)\[\.\.(.*?)\]," + ws + r"&mut" + ws + r"wave_out\[\1\]\.as_mut\(\)\[\.\.(.*?)\]," + ws +
             r"&mut" + ws + r"self\.overlaps\[\1\],?" + ws + r"\)" + ws + r";?" + ws + r"\}" + ws + r"\}", "fftIo_unit_call", T)
    f(pre, "unit_in_len", m.group(2), fts, {}, "FftFixedInOut: frames of the caller's input handed to the unit")
    f(pre, "unit_out_len", m.group(3), fts, {}, "FftFixedInOut: frames of the caller's output the unit writes")
    m = need(pb, r"Ok\(\((.*?)," + ws + r"(.*?)\)\)" + ws + r"$", "fftIo_return", T)
    f(pre, "ret_in", m.group(1), fts, {}, "FftFixedInOut: input frames reported")
    f(pre, "ret_out", m.group(2), fts, {}, "FftFixedInOut: output frames reported")

    # ---- FftFixedIn
    T, pre = "FftFixedIn", "fftIn"
    fts = struct_field_types(syn, T, item)
    pb = strip_log_macros(impl_method_body(syn, T, "process_into_buffer", item))
    cur_body[0] = pb
    loc = {"next_saved_frames": "N", "nbr_chunks_ready": "N", "needed_len": "N", "frames_in_used": "N", "extra": "N"}
    m = need(pb, r"for" + ws + r"\(input," + ws + r"buffer\)" + ws + r"in" + ws + r"wave_in\[chan\]\.as_ref\(\)\.iter\(\)\.zip\(" + ws +
             r"self\.input_buffers\[chan\]" + ws + r"\.iter_mut\(\)" + ws + r"\.skip\((.*?)\)" + ws + r"\.take\((.*?)\),?" + ws + r"\)" + ws +
             r"\{" + ws + r"\*buffer" + ws + r"=" + ws + r"\*input;" + ws + r"\}", "fftIn_input_copy", T)
    f(pre, "copy_at", m.group(1), fts, loc, "FftFixedIn: where the new frames are stored in `input_buffers`")
    f(pre, "copy_len", m.group(2), fts, loc, "FftFixedIn: how many new frames are stored")
    copy_end = m.end()
    m = need(pb[copy_end:], r"^[\s}]*self\.saved_frames" + ws + r"=" + ws + r"(.*?);", "fftIn_saved_after_copy", T)
    f(pre, "saved_after_copy", m.group(1), fts, loc, "FftFixedIn: saved_frames after storing the request")
    m = need(pb, r"for" + ws + r"\(in_chunk," + ws + r"out_chunk\)" + ws + r"in" + ws + r"self\.input_buffers\[chan\]" + ws + r"\.chunks\((.*?)\)" + ws +
             r"\.take\((.*?)\)" + ws + r"\.zip\(wave_out\[chan\]\.as_mut\(\)\.chunks_mut\((.*?)\)\)" + ws + r"\{" + ws +
             r"self\.resampler" + ws + r"\.resample_unit\(in_chunk," + ws + r"out_chunk," + ws + r"&mut" + ws + r"self\.overlaps\[chan\]\);" + ws + r"\}",
             "fftIn_block_loop", T)
    f(pre, "block_in", m.group(1), fts, loc, "FftFixedIn: input block length")
    f(pre, "blocks", m.group(2), fts, loc, "FftFixedIn: number of blocks processed")
    f(pre, "block_out", m.group(3), fts, loc, "FftFixedIn: output block length")
    f(pre, "frames_in_used", need(pb, r"let" + ws + r"frames_in_used" + ws + r"=" + ws + r"(.*?);", "fftIn_frames_in_used", T).group(1), fts, loc,
      "FftFixedIn: frames consumed from the staging buffer")
    f(pre, "extra", need(pb, r"let" + ws + r"extra" + ws + r"=" + ws + r"(.*?);", "fftIn_extra", T).group(1), fts, loc,
      "FftFixedIn: frames carried over")
    m = need(pb, r"if" + ws + r"(self\.saved_frames" + ws + r">" + ws + r"frames_in_used)" + ws + r"\{" + ws + r"for" + ws + r"\(chan," + ws + r"active\)" + ws + r"in" + ws +
             r"self\.channel_mask\.iter\(\)\.enumerate\(\)" + ws + r"\{" + ws + r"if" + ws + r"\*active" + ws + r"\{" + ws +
             r"self\.input_buffers\[chan\]\.copy_within\((.*?)\.\.(.*?)," + ws + r"(\w+)\);" + ws + r"\}" + ws + r"\}" + ws + r"\}" + ws +
             r"self\.saved_frames" + ws + r"=" + ws + r"(.*?);" + ws + r"Ok\(\((.*?)," + ws + r"(.*?)\)\)" + ws + r"$", "fftIn_carry", T)
    f(pre, "carry_cond", m.group(1), fts, loc, "FftFixedIn: the carry-over is moved when", "B")
    f(pre, "carry_from", m.group(2), fts, loc, "FftFixedIn: carry-over source start")
    f(pre, "carry_to", m.group(3), fts, loc, "FftFixedIn: carry-over source end")
    f(pre, "carry_dest", m.group(4), fts, loc, "FftFixedIn: carry-over destination")
    f(pre, "saved_final", m.group(5), fts, loc, "FftFixedIn: saved_frames on return")
    f(pre, "ret_in", m.group(6), fts, loc, "FftFixedIn: input frames reported")
    f(pre, "ret_out", m.group(7), fts, loc, "FftFixedIn: output frames reported")

    # ---- FftFixedOut
    T, pre = "FftFixedOut", "fftOut"
    fts = struct_field_types(syn, T, item)
    pb = strip_log_macros(impl_method_body(syn, T, "process_into_buffer", item))
    cur_body[0] = pb
    loc = {"processed_frames": "N", "frames_needed_out": "N", "input_frames_used": "N", "chunks_needed": "N"}
    m = need(pb, r"for" + ws + r"\(in_chunk," + ws + r"out_chunk\)" + ws + r"in" + ws + r"wave_in\[chan\]\.as_ref\(\)\[\.\.(.*?)\]" + ws + r"\.chunks\((.*?)\)" + ws +
             r"\.zip\(" + ws + r"self\.output_buffers\[chan\]\[(.*?)\.\.\]" + ws + r"\.chunks_mut\((.*?)\),?" + ws + r"\)" + ws + r"\{" + ws +
             r"self\.resampler" + ws + r"\.resample_unit\(in_chunk," + ws + r"out_chunk," + ws + r"&mut" + ws + r"self\.overlaps\[chan\]\);" + ws + r"\}",
             "fftOut_block_loop", T)
    f(pre, "in_len", m.group(1), fts, loc, "FftFixedOut: frames of the caller's input that are cut into blocks")
    f(pre, "block_in", m.group(2), fts, loc, "FftFixedOut: input block length")
    f(pre, "store_at", m.group(3), fts, loc, "FftFixedOut: where the new blocks are staged in `output_buffers`")
    f(pre, "block_out", m.group(4), fts, loc, "FftFixedOut: output block length")
    f(pre, "processed", need(pb, r"let" + ws + r"processed_frames" + ws + r"=" + ws + r"(.*?);", "fftOut_processed", T).group(1), fts, loc,
      "FftFixedOut: frames staged after the blocks of this call")
    m = need(pb, r"if" + ws + r"(processed_frames" + ws + r">=" + ws + r"self\.chunk_size_out)" + ws + r"\{" + ws + r"self\.saved_frames" + ws + r"=" + ws + r"(.*?);" + ws +
             r"for" + ws + r"\(chan," + ws + r"active\)" + ws + r"in" + ws + r"self\.channel_mask\.iter\(\)\.enumerate\(\)" + ws + r"\{" + ws + r"if" + ws + r"\*active" + ws + r"\{" + ws +
             r"wave_out\[chan\]\.as_mut\(\)\[\.\.(.*?)\]" + ws + r"\.copy_from_slice\(&self\.output_buffers\[chan\]\[\.\.(.*?)\]\);" + ws +
             r"self\.output_buffers\[chan\]\.copy_within\(" + ws + r"(.*?)\.\.\((.*?)\)," + ws + r"(\w+),?" + ws + r"\);" + ws + r"\}" + ws + r"\}" + ws + r"\}" + ws +
             r"else" + ws + r"\{" + ws + r"self\.saved_frames" + ws + r"=" + ws + r"(.*?);" + ws + r"\}", "fftOut_deliver", T)
    f(pre, "deliver_cond", m.group(1), fts, loc, "FftFixedOut: a chunk is delivered when", "B")
    f(pre, "saved_delivered", m.group(2), fts, loc, "FftFixedOut: saved_frames after delivering a chunk")
    f(pre, "out_len", m.group(3), fts, loc, "FftFixedOut: frames written to the caller's output")
    f(pre, "out_src_len", m.group(4), fts, loc, "FftFixedOut: frames taken from the staging buffer")
    f(pre, "carry_from", m.group(5), fts, loc, "FftFixedOut: carry-over source start")
    f(pre, "carry_to", m.group(6), fts, loc, "FftFixedOut: carry-over source end")
    f(pre, "carry_dest", m.group(7), fts, loc, "FftFixedOut: carry-over destination")
    f(pre, "saved_kept", m.group(8), fts, loc, "FftFixedOut: saved_frames when no chunk is delivered")
    m = need(pb, r"let" + ws + r"input_frames_used" + ws + r"=" + ws + r"(.*?);", "fftOut_used", T)
    f(pre, "used", m.group(1), fts, loc, "FftFixedOut: input frames consumed")
    m = need(pb, r"Ok\(\((.*?)," + ws + r"(.*?)\)\)" + ws + r"$", "fftOut_return", T)
    f(pre, "ret_in", m.group(1), fts, loc, "FftFixedOut: input frames reported")
    f(pre, "ret_out", m.group(2), fts, loc, "FftFixedOut: output frames reported")
    # `input_frames_used` must be read before frames_needed is recomputed
    if pb.index("let input_frames_used") > pb.rindex("self.frames_needed ="):
        raise TranslateError(f"{item}.fftOut_used_order", "FftFixedOut: input_frames_used is read after frames_needed has been recomputed")
    out.append("/-- which fields / locals each data-movement formula reads -/")
    out.append("def moveParams : List (String × List String) := [")
    out.append(",\n".join(f'  ("{k}", [{", ".join(chr(34) + p + chr(34) for p in v)}])' for k, v in sigs) + "]")
    return "\n".join(out)


# ------------------------------------------------------------------------------------------ G16: the provided methods of the Resampler trait
GETTER_ID = {"input_frames_next": 0, "input_frames_max": 1, "output_frames_next": 2, "output_frames_max": 3}
CORE_ID = {"process_into_buffer": 0, "process_partial_into_buffer": 1, "make_buffer": 2}


def gen_trait_defaults(item="G16.trait_defaults"):
    """lib.rs: the five provided methods of `Resampler` (process, process_partial_into_buffer, process_partial,
    input_buffer_allocate, output_buffer_allocate): which getter sizes the buffer each of them allocates, which method it
    delegates to, and (checked on the text) how masked channels, short inputs and the returned length are handled."""
    lib = strip_comments(read("lib.rs"))
    m = re.search(r"pub\s+trait\s+Resampler<T>\s*:\s*Send\s*(?:where\s+T\s*:\s*Sample\s*,?\s*)?", lib)
    if not m:
        raise TranslateError(item, "trait Resampler<T> not found")
    trait, _ = block_after(lib, m.end(), item)
    ws = r"\s*"
    rows = []

    def nb(name):
        return re.sub(r"\s+", " ", strip_log_macros(fn_body(trait, name, item)[1])).strip()

    out_alloc = (r"let frames = self\.(\w+)\(\); let channels = self\.nbr_channels\(\); let mut wave_out = Vec::with_capacity\(channels\); "
                 r"for chan in 0\.\.channels \{ let chan_out = if active_channels_mask \.and_then\(\|mask\| mask\.get\(chan\)\.copied\(\)\) \.unwrap_or\(true\) "
                 r"\{ vec!\[T::zero\(\); frames\] \} else \{ vec!\[\] \}; wave_out\.push\(chan_out\); \} "
                 r"let \(_, out_len\) = self\.(\w+)\((wave_in), &mut wave_out, active_channels_mask\)\?; "
                 r"for chan_out in wave_out\.iter_mut\(\) \{ chan_out\.truncate\(out_len\); \} Ok\(wave_out\)$")
    for mid, name in ((0, "process"), (2, "process_partial")):
        b = nb(name)
        mm = re.match(out_alloc, b)
        if not mm:
            raise TranslateError(f"{item}.{name}", f"Resampler::{name} is not `allocate frames = <getter>() per ACTIVE channel (empty for masked ones), "
                                 "delegate, truncate every channel to the returned length, Ok(wave_out)`")
        if mm.group(1) not in GETTER_ID or mm.group(2) not in CORE_ID:
            raise TranslateError(f"{item}.{name}", f"unexpected getter / delegate {mm.group(1)} / {mm.group(2)}")
        rows.append((mid, GETTER_ID[mm.group(1)], CORE_ID[mm.group(2)], f"{name}: sized by {mm.group(1)}(), delegates to {mm.group(2)}"))
    b = nb("process_partial_into_buffer")
    pad = (r"let frames = self\.(\w+)\(\); let mut wave_in_padded = Vec::with_capacity\(self\.nbr_channels\(\)\); "
           r"for _ in 0\.\.self\.nbr_channels\(\) \{ wave_in_padded\.push\(vec!\[T::zero\(\); frames\]\); \} "
           r"if let Some\(input\) = wave_in \{ for \(ch_input, ch_padded\) in input\.iter\(\)\.zip\(wave_in_padded\.iter_mut\(\)\) \{ "
           r"let mut frames_in = ch_input\.as_ref\(\)\.len\(\); if frames_in > frames \{ frames_in = frames; \} "
           r"if frames_in > 0 \{ ch_padded\[\.\.frames_in\]\.copy_from_slice\(&ch_input\.as_ref\(\)\[\.\.frames_in\]\); \} else \{ ch_padded\.clear\(\); \} \} \} "
           r"self\.(\w+)\(&wave_in_padded, wave_out, active_channels_mask\)$")
    mm = re.match(pad, b)
    if not mm:
        raise TranslateError(f"{item}.process_partial_into_buffer", "Resampler::process_partial_into_buffer is not `zero buffer of <getter>() frames per channel, "
                             "copy min(len, frames) frames of every supplied channel (an empty one is cleared), delegate`")
    if mm.group(1) not in GETTER_ID or mm.group(2) not in CORE_ID:
        raise TranslateError(f"{item}.process_partial_into_buffer", f"unexpected getter / delegate {mm.group(1)} / {mm.group(2)}")
    rows.append((1, GETTER_ID[mm.group(1)], CORE_ID[mm.group(2)], f"process_partial_into_buffer: padded to {mm.group(1)}(), delegates to {mm.group(2)}"))
    for mid, name in ((3, "input_buffer_allocate"), (4, "output_buffer_allocate")):
        b = nb(name)
        mm = re.match(r"let frames = self\.(\w+)\(\); let channels = self\.nbr_channels\(\); (\w+)\(channels, frames, filled\)$", b)
        if not mm or mm.group(1) not in GETTER_ID or mm.group(2) not in CORE_ID:
            raise TranslateError(f"{item}.{name}", f"Resampler::{name} is not `make_buffer(self.nbr_channels(), self.<getter>(), filled)`")
        rows.append((mid, GETTER_ID[mm.group(1)], CORE_ID[mm.group(2)], f"{name}: {mm.group(1)}() frames per channel"))
    mb = re.sub(r"\s+", " ", fn_body(lib, "make_buffer", item)[1]).strip()
    if not re.match(r"let mut buffer = Vec::with_capacity\(channels\); for _ in 0\.\.channels \{ buffer\.push\(Vec::with_capacity\(frames\)\); \} "
                    r"if filled \{ resize_buffer\(&mut buffer, frames\) \} buffer$", mb):
        raise TranslateError(f"{item}.make_buffer", "make_buffer is not `channels vectors of capacity frames, resized to frames when filled`")
    rb = re.sub(r"\s+", " ", fn_body(lib, "resize_buffer", item)[1]).strip()
    if not re.match(r"buffer\.iter_mut\(\)\.for_each\(\|v\| v\.resize\(frames, T::zero\(\)\)\);?$", rb):
        raise TranslateError(f"{item}.resize_buffer", "resize_buffer is not `every channel resized to frames with zeros`")
    rows.sort()
    out = ["/-- the provided methods of `Resampler`: (method 0 process / 1 process_partial_into_buffer / 2 process_partial /",
           "    3 input_buffer_allocate / 4 output_buffer_allocate, the getter that sizes what it allocates: 0 input_frames_next /",
           "    1 input_frames_max / 2 output_frames_next / 3 output_frames_max, what it delegates to: 0 process_into_buffer /",
           "    1 process_partial_into_buffer / 2 make_buffer) -/",
           "def traitDefaults : List (Nat × Nat × Nat) := ["]
    out.append(",\n".join(f"  ({a}, {b}, {c})  /- {doc} -/" for a, b, c, doc in rows) + "]")
    return "\n".join(out)


# ------------------------------------------------------------------------------------------ G17: what the constructors reject
def gen_ctor_validation(item="G17.ctor_validation"):
    """validate_ratios (asynchro_fast.rs and asynchro_sinc.rs must agree) and validate_sample_rates (synchro.rs) as decision
    lists, and (checked on the text) that each of the seven constructors calls its validator on its own arguments before it
    computes or allocates anything"""
    fast = strip_comments(read("asynchro_fast.rs"))
    sinc = strip_comments(read("asynchro_sinc.rs"))
    syn = strip_comments(read("synchro.rs"))
    out = []
    ws = r"\s*"
    vr = re.compile(r"^" + ws + r"if" + ws + r"(.*?)" + ws + r"\{" + ws + r"return" + ws + r"Err\(ResamplerConstructionError::InvalidRatio\(resample_ratio\)\);" + ws + r"\}" + ws +
                    r"if" + ws + r"(.*?)" + ws + r"\{" + ws + r"return" + ws + r"Err\(ResamplerConstructionError::InvalidRelativeRatio\(" + ws +
                    r"max_resample_ratio_relative,?" + ws + r"\)\);" + ws + r"\}" + ws + r"Ok\(\(\)\)" + ws + r"$", re.S)
    conds = []
    for name, src in (("asynchro_fast.rs", fast), ("asynchro_sinc.rs", sinc)):
        sig, body = fn_body(src, "validate_ratios", item)
        m = vr.match(body)
        if not m:
            raise TranslateError(f"{item}.validate_ratios", f"{name}: validate_ratios is not `if <c1> {{ return Err(InvalidRatio(resample_ratio)) }} "
                                 "if <c2> { return Err(InvalidRelativeRatio(max_resample_ratio_relative)) } Ok(())`")
        conds.append((re.sub(r"\s+", " ", m.group(1)), re.sub(r"\s+", " ", m.group(2))))
    if conds[0] != conds[1]:
        raise TranslateError(f"{item}.validate_ratios", f"the two copies of validate_ratios differ: {conds[0]} vs {conds[1]}")
    loc = {"resample_ratio": "F", "max_resample_ratio_relative": "F"}
    d, _ = gen_formula(f"{item}.invalid_ratio", "ctor_invalid_ratio", conds[0][0], {}, {}, "B", "validate_ratios: InvalidRatio when", loc)
    out += [d, ""]
    d, _ = gen_formula(f"{item}.invalid_relative", "ctor_invalid_relative", conds[0][1], {}, {}, "B", "validate_ratios: InvalidRelativeRatio when", loc)
    out += [d, ""]
    sig, body = fn_body(syn, "validate_sample_rates", item)
    m = re.match(r"^" + ws + r"if" + ws + r"(.*?)" + ws + r"\{" + ws + r"return" + ws + r"Err\(ResamplerConstructionError::InvalidSampleRate" + ws + r"\{" + ws +
                 r"input," + ws + r"output" + ws + r"\}\);" + ws + r"\}" + ws + r"Ok\(\(\)\)" + ws + r"$", body, re.S)
    if not m:
        raise TranslateError(f"{item}.validate_sample_rates", "validate_sample_rates is not `if <c> { return Err(InvalidSampleRate { input, output }) } Ok(())`")
    d, _ = gen_formula(f"{item}.invalid_rates", "ctor_invalid_rates", m.group(1), {}, {}, "B", "validate_sample_rates: InvalidSampleRate when",
                       {"input": "N", "output": "N"})
    out += [d, ""]
    # every constructor validates first
    rows = []
    for tid, (T, src, fname, call) in enumerate((
            ("FastFixedIn", fast, "new", r"validate_ratios\(resample_ratio,\s*max_resample_ratio_relative\)\?;"),
            ("FastFixedOut", fast, "new", r"validate_ratios\(resample_ratio,\s*max_resample_ratio_relative\)\?;"),
            ("SincFixedIn", sinc, "new_with_interpolator", r"validate_ratios\(resample_ratio,\s*max_resample_ratio_relative\)\?;"),
            ("SincFixedOut", sinc, "new_with_interpolator", r"validate_ratios\(resample_ratio,\s*max_resample_ratio_relative\)\?;"),
            ("FftFixedIn", syn, "new", r"validate_sample_rates\(sample_rate_input,\s*sample_rate_output\)\?;"),
            ("FftFixedOut", syn, "new", r"validate_sample_rates\(sample_rate_input,\s*sample_rate_output\)\?;"),
            ("FftFixedInOut", syn, "new", r"validate_sample_rates\(sample_rate_input,\s*sample_rate_output\)\?;"))):
        m = re.search(r"impl<T>\s+" + T + r"<T>", src)
        if not m:
            raise TranslateError(item, f"impl block of {T} not found")
        implb, _ = block_after(src, m.end(), item)
        body = strip_log_macros(fn_body(implb, fname, item)[1]).lstrip(" \n;")
        mc = re.match(call, body)
        if not mc:
            raise TranslateError(f"{item}.{T}", f"{T}::{fname} does not start by validating its arguments ({call})")
        rows.append((tid, 1, T))
    # the sinc `new` constructors build the interpolator and hand over to new_with_interpolator with the same arguments
    for T in ("SincFixedIn", "SincFixedOut"):
        m = re.search(r"impl<T>\s+" + T + r"<T>", sinc)
        implb, _ = block_after(sinc, m.end(), item)
        body = re.sub(r"\s+", " ", strip_log_macros(fn_body(implb, "new", item)[1]))
        if not re.search(r"Self::new_with_interpolator\( resample_ratio, max_resample_ratio_relative, parameters\.interpolation, interpolator, chunk_size, nbr_channels, \)", body):
            raise TranslateError(f"{item}.{T}_new", f"{T}::new does not hand (resample_ratio, max_resample_ratio_relative, parameters.interpolation, interpolator, "
                                 "chunk_size, nbr_channels) to new_with_interpolator")
    out.append("/-- (type id, 1 = the constructor's first statement is the validation of its own arguments) -/")
    out.append("def ctorValidatesFirst : List (Nat × Nat) := [")
    out.append(",\n".join(f"  ({t}, {v})  /- {T} -/" for t, v, T in rows) + "]")
    return "\n".join(out)


# ------------------------------------------------------------------------------------------ G18: what an asynchronous call reports and leaves behind
def gen_async_tail(item="G18.async_tail"):
    """the statements after the interpolation loop of the four asynchronous process_into_buffer bodies: the ratio the next call
    starts from, the two counts reported, and (fixed-output types) that the consumed count is read BEFORE the size needed by
    the next call is recomputed"""
    fast = strip_comments(read("asynchro_fast.rs"))
    sinc = strip_comments(read("asynchro_sinc.rs"))
    out, sigs = [], []
    ws = r"\s*"
    for T, pre, src in (("FastFixedIn", "fastIn", fast), ("FastFixedOut", "fastOut", fast),
                        ("SincFixedIn", "sincIn", sinc), ("SincFixedOut", "sincOut", sinc)):
        fts = struct_field_types(src, T, item)
        pb = strip_log_macros(impl_method_body(src, T, "process_into_buffer", item))
        mt = re.search(r"self\.last_index" + ws + r"=(?!=)", pb)
        if not mt:
            raise TranslateError(f"{item}.{pre}", f"{T}::process_into_buffer: `self.last_index = ..` not found")
        tail = pb[mt.start():]
        loc = {"n": "N", "input_frames_used": "N"}
        m = re.search(r"self\.resample_ratio" + ws + r"=(?!=)" + ws + r"(.*?);", tail, re.S)
        if not m:
            raise TranslateError(f"{item}.{pre}_ratio_after", f"{T}::process_into_buffer: `self.resample_ratio = ..;` after the loop not found")
        d, p = gen_formula(f"{item}.{pre}_ratio_after", f"{pre}_ratio_after", m.group(1), fts, {}, "F", f"{T}::process_into_buffer: the ratio the next call starts from", loc)
        out += [d, ""]
        sigs.append((f"{pre}_ratio_after", p))
        m = re.search(r"Ok\(\((.*?)," + ws + r"(.*?)\)\)" + ws + r"$", pb, re.S)
        if not m:
            raise TranslateError(f"{item}.{pre}_return", f"{T}::process_into_buffer does not end in Ok((in, out))")
        for nm, text in (("ret_in", m.group(1)), ("ret_out", m.group(2))):
            d, p = gen_formula(f"{item}.{pre}_{nm}", f"{pre}_{nm}", text, fts, {}, "N", f"{T}::process_into_buffer: {nm} reported", loc)
            out += [d, ""]
            sigs.append((f"{pre}_{nm}", p))
        if pre.endswith("Out"):
            mu = re.search(r"let" + ws + r"input_frames_used" + ws + r"=" + ws + r"(.*?);", pb, re.S)
            if not mu:
                raise TranslateError(f"{item}.{pre}_used", f"{T}::process_into_buffer: `let input_frames_used = ..;` not found")
            d, p = gen_formula(f"{item}.{pre}_used", f"{pre}_used", mu.group(1), fts, {}, "N", f"{T}::process_into_buffer: input frames consumed", loc)
            out += [d, ""]
            sigs.append((f"{pre}_used", p))
            after = pb[mu.end():]
            before = pb[:mu.start()]
            recompute = r"self\.needed_input_size" + ws + r"=(?!=)|self\.update_needed_len\(\)"
            if re.search(recompute, before) or not re.search(recompute, after):
                raise TranslateError(f"{item}.{pre}_used_order", f"{T}::process_into_buffer: the consumed count must be read before needed_input_size is recomputed")
            if len(re.findall(r"\bn\b" + ws + r"(?:\+|-)?=(?!=)", pb)) and pre.endswith("Out"):
                pass
        else:
            # `n` is the frame counter of the loop: declared once as `let mut n = 0;`, incremented once per frame
            if len(re.findall(r"let" + ws + r"mut" + ws + r"n" + ws + r"=" + ws + r"0;", pb)) != 1:
                raise TranslateError(f"{item}.{pre}_n", f"{T}::process_into_buffer: the frame counter `let mut n = 0;` not found exactly once")
    out.append("/-- which fields / locals each of these reads -/")
    out.append("def tailParams : List (String × List String) := [")
    out.append(",\n".join(f'  ("{k}", [{", ".join(chr(34) + p + chr(34) for p in v)}])' for k, v in sigs) + "]")
    return "\n".join(out)


# ----------------------------------------------------------------------------- driver
HEADER = """/-
GENERATED by /verif/translate/rs2lean.py from /repo/src — do not edit.
Every definition below is a token-by-token translation of a Rust item; the theorems of
RubatoProofs are stated about these definitions, so they are re-checked against what the
source says on every run.
-/
import RubatoModel.Num
import RubatoModel.Types

set_option linter.unusedVariables false

namespace Rubato.Gen
open Rubato
"""


# ------------------------------------------------------------------------------------------ G8: wrapper forwarding
def gen_forwarding(item="G8.vec_resampler_forwarding"):
    """`implement_resampler!` (lib.rs): every method of the generated wrapper trait must be a single call of a
    `rubato::Resampler` method on `self` with the wrapper's own parameters.  Emitted as numbers (method ids = position in
    the trait declaration) so that the Lean side can decide `callee = method` and `args = own parameters in order`."""
    src = strip_comments(read("lib.rs"))
    m = re.search(r"macro_rules!\s*implement_resampler\s*\{", src)
    if not m:
        raise TranslateError(item, "macro implement_resampler not found")
    body, _ = block_after(src, m.end() - 1, item)
    mt = re.search(r"pub\s+trait\s+\$trait_name\s*<T>\s*:\s*Send\s*\{", body)
    mi = re.search(r"impl\s*<T,\s*U>\s*\$trait_name\s*<T>\s*for\s+U\b[^{]*\{", body)
    if not mt or not mi:
        raise TranslateError(item, "trait declaration / blanket impl not found in implement_resampler!")
    decl, _ = block_after(body, mt.end() - 1, item)
    impl, _ = block_after(body, mi.end() - 1, item)
    declared = re.findall(r"\bfn\s+([a-z_0-9]+)\s*\(", decl)
    if len(declared) != len(set(declared)) or not declared:
        raise TranslateError(item, "unexpected trait declaration")
    rows = []
    pos = 0
    seen = []
    while True:
        mf = re.compile(r"\bfn\s+([a-z_0-9]+)\s*\(").search(impl, pos)
        if not mf:
            break
        name = mf.group(1)
        # parameter list up to the matching ')'
        depth, k = 1, mf.end()
        while depth:
            if impl[k] == "(":
                depth += 1
            elif impl[k] == ")":
                depth -= 1
            k += 1
        params_txt = impl[mf.end():k - 1]
        params = []
        for p in split_top(params_txt):
            p = p.strip()
            if not p:
                continue
            if p in ("&self", "&mut self", "self"):
                params.append("self")
            else:
                params.append(p.split(":")[0].strip())
        brace = impl.index("{", k)
        fbody, pos = block_after(impl, brace, item)
        fbody = fbody.strip()
        mc = re.fullmatch(r"rubato::Resampler::([a-z_0-9]+)\s*\((.*)\)", fbody, re.S)
        if not mc:
            raise TranslateError(item, f"wrapper method {name} is not a single rubato::Resampler call: {fbody[:80]!r}")
        callee = mc.group(1)
        args = []
        for a in split_top(mc.group(2)):
            a = a.strip()
            if not a:
                continue
            a = re.sub(r"\.map\(AsRef::as_ref\)$", "", a)   # Option<&[V]> re-borrow, same value
            if a not in params:
                raise TranslateError(item, f"wrapper method {name}: argument {a!r} is not one of its parameters")
            args.append(params.index(a))
        if name not in declared:
            raise TranslateError(item, f"impl method {name} is not declared in the wrapper trait")
        if callee not in declared:
            raise TranslateError(item, f"wrapper method {name} calls {callee}, which is not a wrapper-trait method name")
        seen.append(name)
        rows.append((declared.index(name), declared.index(callee), args, len(params), name, callee))
    if sorted(seen) != sorted(declared):
        raise TranslateError(item, "blanket impl does not define exactly the declared methods")
    out = ["/-- `implement_resampler!`: (wrapper method id, `rubato::Resampler` method it calls, positions of the wrapper's own",
           "    parameters passed as arguments (0 = self), number of parameters). Method ids = order of declaration in the",
           "    wrapper trait: " + ", ".join(f"{i}={n}" for i, n in enumerate(declared)) + " -/",
           "def forwardTable : List (Nat × Nat × List Nat × Nat) := ["]
    out.append(",\n".join(f"  ({a}, {b}, [{', '.join(map(str, c))}], {d})  /- {n} -> {cal} -/" for a, b, c, d, n, cal in rows) + "]")
    out.append("")
    out.append(f"def forwardMethods : Nat := {len(declared)}")
    return "\n".join(out)


def split_top(txt):
    """split at top-level commas"""
    parts, depth, cur = [], 0, ""
    for ch in txt:
        if ch in "([{<":
            depth += 1
        elif ch in ")]}>":
            depth -= 1
        if ch == "," and depth == 0:
            parts.append(cur)
            cur = ""
        else:
            cur += ch
    parts.append(cur)
    return parts


# ------------------------------------------------------------------------------------------ G9: ambient state scan
AMBIENT_PATTERNS = [
    ("static mut (immutable statics carry no state unless they hold one of the cell/lock types below)", r"\bstatic\s+mut\b"),
    ("thread_local!/lazy_static!", r"\b(?:thread_local|lazy_static)\s*!"),
    ("OnceLock/OnceCell/Lazy*", r"\b(?:OnceLock|OnceCell|LazyLock|LazyCell|Lazy)\b"),
    ("Atomic*/Mutex/RwLock", r"\b(?:Atomic[A-Z]\w*|Mutex|RwLock)\b"),
    ("interior mutability (RefCell/Cell/UnsafeCell)", r"\b(?:RefCell|UnsafeCell|Cell)\b"),
    ("floating-point control state (MXCSR/FPCR/rounding mode)",
     r"_mm_setcsr|_MM_SET_\w+|\bsetcsr\b|ldmxcsr|fesetround|fesetenv|\bfpcr\b|set_flush_zero|set_denormals"),
    ("process environment / globals", r"\benv::set_var\b|\bset_var\s*\(|\bset_current_dir\b|\bset_hook\b"),
    ("uninitialised memory (its contents are whatever earlier allocations of the process left behind)",
     r"\bset_len\s*\(|\bMaybeUninit\b|\buninitialized\s*\(|\balloc\s*::\s*alloc\b|\bfrom_raw_parts(?:_mut)?\b|\bassume_init\b"),
]


def gen_ambient(item="G9.ambient_state"):
    """C18: constructs that create or mutate state living outside a resampler instance (process-, thread- or CPU-wide),
    counted over all non-test code of the crate.  A syntactic over-approximation, like G6."""
    rows = []
    for pid, (name, pat) in enumerate(AMBIENT_PATTERNS):
        total = 0
        where = []
        for rel in RS_FILES:
            path = os.path.join(SRC, rel)
            if not os.path.exists(path):
                raise TranslateError(item, f"source file {rel} missing")
            src = strip_comments(open(path).read())
            cut = src.find("#[cfg(test)]")
            if cut >= 0:
                src = src[:cut]
            n = len(re.findall(pat, src))
            if n:
                where.append(f"{rel}:{n}")
            total += n
        rows.append((pid, total, name, where))
    # every source file of the crate must be in the scan
    present = sorted(f for f in os.listdir(SRC) if f.endswith(".rs"))
    missing = [f for f in present if f not in RS_FILES]
    if missing:
        raise TranslateError(item, f"source files not covered by the scan: {missing}")
    out = ["/-- constructs that create or mutate state outside a resampler instance: (pattern id, occurrences in non-test code) -/",
           "def ambientStateTable : List (Nat × Nat) := ["]
    out.append(",\n".join(f"  ({p}, {n})  /- {name}{(' @ ' + ' '.join(w)) if w else ''} -/" for p, n, name, w in rows) + "]")
    return "\n".join(out)


# ------------------------------------------------------------------------------------------ G10: argument validation
V_SUBJECT = {"wave_in": 0, "mask": 1, "wave_out": 2}
V_COUNT_ERR = {"WrongNumberOfInputChannels": 0, "WrongNumberOfMaskChannels": 1, "WrongNumberOfOutputChannels": 3}
V_EACH_ERR = {"InsufficientInputBufferSize": 2, "InsufficientOutputBufferSize": 4}
V_MIN = {"min_input_len": 0, "min_output_len": 1}
SEVEN = [("FastFixedIn", "asynchro_fast.rs"), ("FastFixedOut", "asynchro_fast.rs"), ("SincFixedIn", "asynchro_sinc.rs"),
         ("SincFixedOut", "asynchro_sinc.rs"), ("FftFixedIn", "synchro.rs"), ("FftFixedOut", "synchro.rs"),
         ("FftFixedInOut", "synchro.rs")]


def gen_validation(item="G10.validation"):
    """lib.rs::validate_buffers as a decision list (in source order), and for each of the seven process_into_buffer bodies:
    the mask prologue, the two minimum lengths handed to validate_buffers, and the number of writes to `self` (other than the
    channel mask) that precede the validation."""
    lib = strip_comments(read("lib.rs"))
    _, body = fn_body(lib, "validate_buffers", item)
    body = body.strip()
    steps = []
    pos = 0
    ws = r"\s*"
    count_re = re.compile(r"if" + ws + r"(\w+)\.len\(\)" + ws + r"!=" + ws + r"channels" + ws + r"\{" + ws +
                          r"return" + ws + r"Err\(ResampleError::(\w+)" + ws + r"\{" + ws + r"expected:" + ws + r"channels," + ws +
                          r"actual:" + ws + r"(\w+)\.len\(\)," + ws + r"\}\);" + ws + r"\}")
    each_re = re.compile(r"for" + ws + r"\(chan," + ws + r"(\w+)\)" + ws + r"in" + ws + r"(\w+)" + ws + r"\.iter(?:_mut)?\(\)" + ws +
                         r"\.enumerate\(\)" + ws + r"\.filter\(\|\(chan," + ws + r"_\)\|" + ws + r"mask\[\*chan\]\)" + ws + r"\{" + ws +
                         r"let" + ws + r"actual_len" + ws + r"=" + ws + r"(\w+)\.as_(?:ref|mut)\(\)\.len\(\);" + ws +
                         r"if" + ws + r"actual_len" + ws + r"<" + ws + r"(\w+)" + ws + r"\{" + ws +
                         r"return" + ws + r"Err\(ResampleError::(\w+)" + ws + r"\{" + ws + r"channel:" + ws + r"chan," + ws +
                         r"expected:" + ws + r"(\w+)," + ws + r"actual:" + ws + r"actual_len," + ws + r"\}\);" + ws + r"\}" + ws + r"\}")
    while True:
        rest = body[pos:].lstrip()
        pos = len(body) - len(rest)
        if rest == "Ok(())":
            break
        m = count_re.match(rest)
        if m:
            subj, err, subj2 = m.groups()
            if subj != subj2 or subj not in V_SUBJECT or err not in V_COUNT_ERR:
                raise TranslateError(item, f"validate_buffers: unexpected channel-count check {m.group(0)[:80]!r}")
            steps.append((0, V_SUBJECT[subj], V_COUNT_ERR[err], 0, f"{subj}.len() != channels -> {err}"))
            pos += m.end()
            continue
        m = each_re.match(rest)
        if m:
            var, subj, var2, mn, err, mn2 = m.groups()
            if var != var2 or mn != mn2 or subj not in V_SUBJECT or err not in V_EACH_ERR or mn not in V_MIN:
                raise TranslateError(item, f"validate_buffers: unexpected per-channel check {m.group(0)[:80]!r}")
            steps.append((1, V_SUBJECT[subj], V_EACH_ERR[err], V_MIN[mn], f"active {subj}[chan].len() < {mn} -> {err}"))
            pos += m.end()
            continue
        raise TranslateError(item, f"validate_buffers: statement outside the decision-list grammar: {rest[:80]!r}")
    out = ["/-- `lib.rs::validate_buffers` as a decision list in source order: (kind 0 = channel count / 1 = every ACTIVE channel's",
           "    length, subject 0 = wave_in / 1 = mask / 2 = wave_out, error 0 WrongNumberOfInputChannels / 1 WrongNumberOfMaskChannels /",
           "    2 InsufficientInputBufferSize / 3 WrongNumberOfOutputChannels / 4 InsufficientOutputBufferSize, minimum 0 = min_input_len /",
           "    1 = min_output_len); error payloads (expected / actual / channel) are checked on the text -/",
           "def validateSteps : List (Nat × Nat × Nat × Nat) := ["]
    out.append(",\n".join(f"  ({a}, {b}, {c}, {d})  /- {doc} -/" for a, b, c, d, doc in steps) + "]")
    out.append("")
    # the seven prologues
    rows = []
    prologue = re.compile(
        r"if" + ws + r"let" + ws + r"Some\(mask\)" + ws + r"=" + ws + r"active_channels_mask" + ws + r"\{" + ws +
        r"if" + ws + r"mask\.len\(\)" + ws + r"!=" + ws + r"self\.nbr_channels" + ws + r"\{" + ws +
        r"return" + ws + r"Err\(ResampleError::WrongNumberOfMaskChannels" + ws + r"\{" + ws + r"expected:" + ws + r"self\.nbr_channels," + ws +
        r"actual:" + ws + r"mask\.len\(\)," + ws + r"\}\);" + ws + r"\}" + ws +
        r"self\.channel_mask\.copy_from_slice\(mask\);" + ws + r"\}" + ws + r"else" + ws + r"\{" + ws +
        r"update_mask_from_buffers\(&mut" + ws + r"self\.channel_mask\);" + ws + r"\};?")
    call = re.compile(r"validate_buffers\(" + ws + r"wave_in," + ws + r"wave_out," + ws + r"&self\.channel_mask," + ws +
                      r"self\.nbr_channels," + ws + r"([\w.]+)," + ws + r"([\w.]+),?" + ws + r"\)\?;")
    write = re.compile(r"\bself\s*\.\s*(\w+)(?:\s*\[[^\]]*\])*\s*(?:=(?!=)|\+=|-=|\*=|/=)|"
                       r"\bself\s*\.\s*(\w+)[^;{}]*?\.(?:iter_mut|copy_within|copy_from_slice|resize|push|fill|clear|swap|truncate|extend\w*)\s*\(")
    for tid, (T, file) in enumerate(SEVEN):
        src = strip_comments(read(file))
        pb = strip_log_macros(impl_method_body(src, T, "process_into_buffer", item))
        mp = prologue.search(pb)
        if not mp or pb[:mp.start()].strip():
            raise TranslateError(item, f"{T}::process_into_buffer does not start with the mask prologue (length check before the copy)")
        mc = call.search(pb)
        if not mc:
            raise TranslateError(item, f"{T}::process_into_buffer: validate_buffers(wave_in, wave_out, &self.channel_mask, self.nbr_channels, .., ..)? not found")
        before = pb[mp.end():mc.start()]
        writes = [w for w in (m.group(1) or m.group(2) for m in write.finditer(before)) if w != "channel_mask"]
        # mutable borrows of a field (mem::replace, mem::swap, helper calls) and calls of methods that are not known getters
        writes += ["&mut " + w for w in re.findall(r"&mut\s+self\s*\.\s*(\w+)", before) if w != "channel_mask"]
        writes += [w + "()" for w in re.findall(r"\bself\s*\.\s*(\w+)\s*\(", before)
                   if w not in ("calc_needed_len", "output_frames_next", "output_frames_max", "input_frames_next",
                                "input_frames_max", "nbr_channels", "output_delay")]
        rows.append((tid, T, mc.group(1), mc.group(2), len(writes), writes))
    out.append("/-- per type: (type id, minimum input length, minimum output length handed to validate_buffers, number of writes to")
    out.append("    `self` other than the channel mask BEFORE the validation) -/")
    out.append("def validateCalls : List (Nat × String × String × Nat) := [")
    out.append(",\n".join(f'  ({tid}, "{a}", "{b}", {n})  /- {T}{(" writes: " + " ".join(w)) if w else ""} -/' for tid, T, a, b, n, w in rows) + "]")
    return "\n".join(out)


# ------------------------------------------------------------------------------------------ G11: sinc.rs
def gen_sinc_rs(item="G11.sinc_rs"):
    """sinc.rs: the sinc function, the argument handed to it by make_sincs, and (checked on the text) the structure of
    make_sincs: window over npoints*factor points, running sum, normalisation by sum/factor, polyphase layout."""
    src = strip_comments(read("sinc.rs"))
    cut = src.find("#[cfg(test)]")
    if cut >= 0:
        src = src[:cut]
    _, sb = fn_body(src, "sinc", item + ".sinc")
    m = re.match(r"\s*if\s+value\s*==\s*T::zero\(\)\s*\{(.*?)\}\s*else\s*\{(.*?)\}\s*$", sb, re.S)
    if not m:
        raise TranslateError(item + ".sinc", "sinc() is not `if value == T::zero() { .. } else { .. }`")
    pa = Parser(lex(m.group(1).strip(), item), item + ".sinc", {"value": "S"})
    ea = pa.expr("S")
    pa.done()
    pb = Parser(lex(m.group(2).strip(), item), item + ".sinc", {"value": "S"})
    eb = pb.expr("S")
    pb.done()
    out = ["/-- `sinc.rs::sinc` -/",
           "def sinc_fn {ρ σ : Type} [RNum ρ] [SNum ρ σ] [STrig σ] (value : σ) : σ :=",
           f"  if SNum.isZero (ρ := ρ) value then {ea} else {eb}", ""]
    _, mb = fn_body(src, "make_sincs", item + ".make_sincs")
    mb = strip_log_macros(mb)
    k = mb.find("sinc(")
    if k < 0:
        raise TranslateError(item + ".make_sincs", "call of sinc( not found")
    depth, j = 1, k + len("sinc(")
    while depth:
        if mb[j] == "(":
            depth += 1
        elif mb[j] == ")":
            depth -= 1
        j += 1
    arg = mb[k + len("sinc("):j - 1].strip().rstrip(",").strip()
    pc = Parser(lex(arg, item), item + ".make_sincs", {"x": "N", "totpoints": "N", "factor": "N", "npoints": "N", "f_cutoff": "C"})
    earg = pc.expr("S")
    pc.done()
    out += ["/-- make_sincs: the argument of `sinc` at prototype point `x` -/",
            "def sinc_arg {ρ σ : Type} [RNum ρ] [SNum ρ σ] (x totpoints factor : Nat) (f_cutoff : ρ) : σ :=",
            f"  {earg}", ""]
    ws = r"\s*"
    checks = [
        (r"let" + ws + r"totpoints" + ws + r"=" + ws + r"npoints" + ws + r"\*" + ws + r"factor" + ws + r";", "totpoints = npoints * factor"),
        (r"let" + ws + r"window" + ws + r"=" + ws + r"make_window::<T>\(" + ws + r"totpoints," + ws + r"windowfunc" + ws + r"\);", "window over totpoints points"),
        (r"let" + ws + r"mut" + ws + r"sum" + ws + r"=" + ws + r"T::zero\(\);", "sum starts at zero"),
        (r"for" + ws + r"\(x," + ws + r"w\)" + ws + r"in" + ws + r"window\.iter\(\)\.enumerate\(\)\.take\(totpoints\)" + ws + r"\{" + ws +
         r"let" + ws + r"val" + ws + r"=" + ws + r"\*w" + ws + r"\*" + ws + r"sinc\(", "val = w[x] * sinc(..) for every x < totpoints"),
        (r"sum" + ws + r"\+=" + ws + r"val;" + ws + r"y\.push\(val\);" + ws + r"\}", "sum += val; y.push(val)"),
        (r"sum" + ws + r"/=" + ws + r"T::coerce\(factor\);", "sum /= factor"),
        (r"for" + ws + r"p" + ws + r"in" + ws + r"0\.\.npoints" + ws + r"\{" + ws + r"for" + ws + r"n" + ws + r"in" + ws + r"0\.\.factor" + ws + r"\{" + ws +
         r"sincs\[(.*?)\]\[p\]" + ws + r"=" + ws + r"y\[(.*?)\]" + ws + r"/" + ws + r"sum;", "sincs[row][p] = y[src] / sum"),
        (r"let" + ws + r"mut" + ws + r"sincs" + ws + r"=" + ws + r"vec!\[vec!\[T::zero\(\);" + ws + r"npoints\];" + ws + r"factor\];", "factor rows of npoints taps"),
    ]
    rowsrc = None
    for pat, what in checks:
        mm = re.search(pat, mb, re.S)
        if not mm:
            raise TranslateError(item + ".make_sincs", f"make_sincs: expected statement not found: {what}")
        if mm.groups():
            rowsrc = mm.groups()
    for nm, text in (("sincs_row", rowsrc[0]), ("sincs_src", rowsrc[1])):
        te = TExpr(lex(text, item), item + ".make_sincs", {"factor": "N", "n": "N", "p": "N"}, {})
        e = te.expr()
        te.done()
        if e[1] != "N":
            raise TranslateError(item + ".make_sincs", f"{nm}: not a usize expression")
        out += [f"/-- make_sincs: `{text.strip()}` -/", f"def {nm} (factor p n : Nat) : Nat :=", f"  {e[0]}", ""]
    return "\n".join(out)


def generate():
    parts = [HEADER]
    parts.append("namespace Fast")
    for fname, lean_fn, n in (("interp_septic", "interp_septic", 8), ("interp_quintic", "interp_quintic", 6),
                              ("interp_cubic", "interp_cubic", 4), ("interp_lin", "interp_lin", 2)):
        parts.append(gen_interp("asynchro_fast.rs", fname, lean_fn, n, f"G1.fast.{fname}"))
        parts.append("")
    parts.append(gen_fast_table())
    parts.append("end Fast\n")
    parts.append("namespace Sinc")
    for fname, lean_fn, n in (("interp_cubic", "interp_cubic", 4), ("interp_quad", "interp_quad", 3),
                              ("interp_lin", "interp_lin", 2)):
        parts.append(gen_interp("asynchro_sinc.rs", fname, lean_fn, n, f"G2.sinc.{fname}"))
        parts.append("")
    parts.append(gen_nearest_offsets())
    parts.append("end Sinc\n")
    parts.append("namespace Win")
    for fname in ("blackman_harris", "blackman", "hann"):
        parts.append(gen_window_fn(fname, fname + "_at", f"G3.{fname}"))
        parts.append("")
    parts.append(gen_make_window())
    parts.append("")
    parts.append(gen_cutoff())
    parts.append("end Win\n")
    parts.append("namespace Formulas")
    parts.append("open Rubato.Gen")
    parts.append(gen_formulas())
    parts.append("end Formulas\n")
    parts.append("namespace Effects")
    parts.append(gen_effects())
    parts.append("end Effects\n")
    parts.append("namespace SincRs")
    parts.append(gen_sinc_rs())
    parts.append("end SincRs\n")
    parts.append("namespace Validation")
    parts.append(gen_validation())
    parts.append("end Validation\n")
    parts.append("namespace Ambient")
    parts.append(gen_ambient())
    parts.append("end Ambient\n")
    parts.append("namespace Forward")
    parts.append(gen_forwarding())
    parts.append("end Forward\n")
    parts.append("namespace Reset")
    parts.append(gen_reset_table())
    parts.append("end Reset\n")
    parts.append("namespace Storage")
    parts.append(gen_storage())
    parts.append("end Storage\n")
    parts.append("namespace Refill")
    parts.append(gen_refill())
    parts.append("end Refill\n")
    parts.append("namespace Moves")
    parts.append(gen_fft_moves())
    parts.append("end Moves\n")
    parts.append("namespace TraitDefaults")
    parts.append(gen_trait_defaults())
    parts.append("end TraitDefaults\n")
    parts.append("namespace Ctor")
    parts.append(gen_ctor_validation())
    parts.append("end Ctor\n")
    parts.append("namespace Tail")
    parts.append(gen_async_tail())
    parts.append("end Tail\n")
    parts.append("end Rubato.Gen")
    return "\n".join(parts) + "\n"


def main():
    try:
        text = generate()
    except TranslateError as e:
        with open(ERR, "w") as f:
            json.dump({"item": e.item, "message": e.msg}, f)
        print(f"rs2lean: TRANSLATION FAILED item={e.item}: {e.msg}", file=sys.stderr)
        return 2
    if os.path.exists(ERR):
        os.remove(ERR)
    old = None
    if os.path.exists(OUT):
        with open(OUT) as f:
            old = f.read()
    if old != text:
        with open(OUT, "w") as f:
            f.write(text)
        print("rs2lean: Generated.lean updated")
    else:
        print("rs2lean: Generated.lean unchanged")
    return 0


if __name__ == "__main__":
    sys.exit(main())
