#!/usr/bin/env python3
"""rs2lean: narrow Rust -> Lean 4 translator for the straight-line numeric kernels of rubato.

Reads /repo/src (or $RUBATO_SRC) and writes lean/RubatoModel/Generated.lean, touching the
file only when its content changes.  Fails closed: any construct outside the grammar makes the
run exit non-zero and names the item (written to translate/last_error.json as well).

Extracted items
  G1  asynchro_fast.rs : interp_septic / interp_quintic / interp_cubic / interp_lin
  G2  asynchro_sinc.rs : interp_cubic / interp_quad / interp_lin
  G3  windows.rs       : blackman_harris / blackman / hann point formulas, which windows are
                         squared and on which base, calculate_cutoff with its coefficient table
  G4  asynchro_fast.rs : POLYNOMIAL_LEN_*, and per PolynomialDegree arm (offset, width, kernel) of the
                         five fixed-in and five fixed-out loop bodies (must agree pairwise)
  G5  interpolation.rs : offsets handed out by get_nearest_times_2/3/4 (range of `sub`)
"""
import json
import os
import re
import struct
import sys
from fractions import Fraction

SRC = os.environ.get("RUBATO_SRC", "/repo/src")
HERE = os.path.dirname(os.path.abspath(__file__))
OUT = os.path.join(HERE, "..", "lean", "RubatoModel", "Generated.lean")
ERR = os.path.join(HERE, "last_error.json")


class TranslateError(Exception):
    def __init__(self, item, msg):
        super().__init__(f"{item}: {msg}")
        self.item = item
        self.msg = msg


# ----------------------------------------------------------------------------- lexer
TOK = re.compile(r"""
    (?P<ws>\s+|//[^\n]*)
  | (?P<float>\d+\.\d*(?:[eE][+-]?\d+)?|\d+[eE][+-]?\d+)
  | (?P<int>\d+)
  | (?P<id>[A-Za-z_][A-Za-z0-9_]*)
  | (?P<op>::|\.\.|[-+*/()\[\]{}.,;=!&<>|:])
""", re.X)


def lex(s, item):
    out = []
    pos = 0
    while pos < len(s):
        m = TOK.match(s, pos)
        if not m:
            raise TranslateError(item, f"cannot tokenize at {s[pos:pos+30]!r}")
        pos = m.end()
        k = m.lastgroup
        if k == "ws":
            continue
        out.append((k, m.group()))
    return out


# ----------------------------------------------------------------------------- source access
def read(name):
    with open(os.path.join(SRC, name)) as f:
        return f.read()


def strip_comments(s):
    return re.sub(r"//[^\n]*", "", s)


def fn_body(src, name, item):
    """Return (signature, body) of `fn name`; body is the text between the outer braces."""
    m = re.search(r"\bfn\s+" + re.escape(name) + r"\b", src)
    if not m:
        raise TranslateError(item, f"fn {name} not found")
    i = src.index("{", m.end())
    # skip `where` clauses: the first '{' after the signature
    depth = 0
    j = i
    while j < len(src):
        if src[j] == "{":
            depth += 1
        elif src[j] == "}":
            depth -= 1
            if depth == 0:
                return src[m.start():i], src[i + 1:j]
        j += 1
    raise TranslateError(item, f"unbalanced braces in fn {name}")


def block_after(src, start, item):
    i = src.index("{", start)
    depth = 0
    j = i
    while j < len(src):
        if src[j] == "{":
            depth += 1
        elif src[j] == "}":
            depth -= 1
            if depth == 0:
                return src[i + 1:j], j + 1
        j += 1
    raise TranslateError(item, "unbalanced braces")


# ----------------------------------------------------------------------------- expression parser
def lit_to_lean(text):
    """A Rust float literal -> `RNum.lit bits n d` (exact decimal n/d, binary64 bits of rustc)."""
    fr = Fraction(text)
    bits = struct.unpack("<Q", struct.pack("<d", float(text)))[0]
    return f"(RNum.lit 0x{bits:016X} {fr.numerator} {fr.denominator})"


class Parser:
    """Pratt parser for the straight-line numeric subset.

    ctx 'S' : expression of the sample type T        (operators resolve on σ)
    ctx 'C' : expression inside T::coerce(..)/t!(..)  (operators resolve on ρ, the f64 arithmetic)
    """

    def __init__(self, toks, item, env):
        self.t = toks
        self.i = 0
        self.item = item
        self.env = env   # name -> 'S' | 'C' | 'N' (usize)

    def peek(self):
        return self.t[self.i] if self.i < len(self.t) else ("eof", "")

    def next(self):
        tok = self.peek()
        self.i += 1
        return tok

    def expect(self, v):
        k, x = self.next()
        if x != v:
            raise TranslateError(self.item, f"expected {v!r}, got {x!r}")

    def fail(self, what):
        raise TranslateError(self.item, f"unsupported construct: {what}")

    def expr(self, ctx, rbp=0):
        left = self.prefix(ctx)
        while True:
            k, x = self.peek()
            if x in ("+", "-") and rbp < 10:
                self.next()
                right = self.expr(ctx, 10)
                left = f"({left} {x} {right})"
            elif x in ("*", "/") and rbp < 20:
                self.next()
                right = self.expr(ctx, 20)
                left = f"({left} {x} {right})"
            elif x == "." and rbp < 40:
                # method call: .cos() / .sin()
                self.next()
                k2, name = self.next()
                if name not in ("cos", "sin"):
                    self.fail(f"method .{name}")
                self.expect("(")
                self.expect(")")
                if ctx != "S":
                    self.fail(f".{name}() outside sample context")
                left = f"(STrig.{name} {left})"
            else:
                return left

    def prefix(self, ctx):
        k, x = self.next()
        if x == "-":
            e = self.expr(ctx, 30)
            return f"(- {e})"
        if x == "(":
            e = self.expr(ctx)
            self.expect(")")
            return e
        if k == "float":
            if ctx != "C":
                self.fail(f"bare float literal {x} in sample context")
            return lit_to_lean(x)
        if k == "int":
            if ctx != "C":
                self.fail(f"bare int literal {x} in sample context")
            return f"(RNum.ofInt {x})"
        if k == "id":
            if x == "T":
                self.expect("::")
                k2, name = self.next()
                if name == "coerce":
                    self.expect("(")
                    inner = self.coerce_arg()
                    self.expect(")")
                    return inner
                if name == "one":
                    self.expect("(")
                    self.expect(")")
                    return "(SNum.one)"
                if name == "zero":
                    self.expect("(")
                    self.expect(")")
                    return "(SNum.zero)"
                if name == "PI":
                    return "(STrig.pi)"
                self.fail(f"T::{name}")
            if x == "t":
                self.expect("!")
                self.expect("(")
                inner = self.coerce_arg()
                self.expect(")")
                return inner
            if x == "yvals":
                self.expect("[")
                k2, n = self.next()
                if k2 != "int":
                    self.fail("yvals[non-literal]")
                self.expect("]")
                return f"(yvals {n})"
            if x in self.env:
                kind = self.env[x]
                if kind == ctx:
                    return x
                if kind == "N" and ctx == "C":
                    return f"(RNum.ofInt (Int.ofNat {x}))"
                self.fail(f"identifier {x} of kind {kind} in context {ctx}")
            self.fail(f"unknown identifier {x}")
        self.fail(f"token {x!r}")

    def coerce_arg(self):
        """argument of T::coerce / t!: either a usize identifier or an f64 expression."""
        k, x = self.peek()
        k2, x2 = self.t[self.i + 1] if self.i + 1 < len(self.t) else ("eof", "")
        if k == "id" and self.env.get(x) == "N" and x2 == ")":
            self.next()
            return f"(SNum.ofNat {x})"
        inner = self.expr("C")
        return f"(SNum.ofCtl {inner})"

    def done(self):
        if self.i != len(self.t):
            raise TranslateError(self.item, f"trailing tokens {self.t[self.i:self.i+4]}")


def parse_straightline(body, item, env):
    """`let a = e; ... ; final_expr` -> ([(name, lean)], lean_final)."""
    body = strip_comments(body)
    stmts = [s.strip() for s in body.split(";")]
    lets = []
    env = dict(env)
    for s in stmts[:-1]:
        m = re.match(r"let\s+(mut\s+)?([A-Za-z_][A-Za-z0-9_]*)\s*=\s*(.*)$", s, re.S)
        if not m:
            raise TranslateError(item, f"unsupported statement {s[:60]!r}")
        if m.group(1):
            raise TranslateError(item, f"mutable binding {m.group(2)}")
        name, rhs = m.group(2), m.group(3)
        p = Parser(lex(rhs, item), item, env)
        e = p.expr("S")
        p.done()
        lets.append((name, e))
        env[name] = "S"
    p = Parser(lex(stmts[-1], item), item, env)
    e = p.expr("S")
    p.done()
    return lets, e


LEAN_KEYWORDS = {"end", "at", "from", "have", "show", "fun", "do", "then", "else", "if", "in", "let", "open", "by", "with"}


def lean_name(n):
    return n + "_" if n in LEAN_KEYWORDS else n


def emit_fn(lean_fn, params, lets, final, doc, trig=False):
    lines = [f"/-- {doc} -/"]
    cls = "[RNum ρ] [SNum ρ σ]" + (" [STrig σ]" if trig else "")
    lines.append(f"def {lean_fn} {{ρ σ : Type}} {cls} {params} : σ :=")
    for n, e in lets:
        lines.append(f"  let {lean_name(n)} : σ := {e}")
    lines.append(f"  {final}")
    return "\n".join(lines)


# ----------------------------------------------------------------------------- G1 / G2
def gen_interp(file, fname, lean_fn, npts, item):
    src = read(file)
    sig, body = fn_body(src, fname, item)
    if not re.search(r"x\s*:\s*T", sig) or "yvals" not in sig:
        raise TranslateError(item, f"unexpected signature {sig!r}")
    lets, final = parse_straightline(body, item, {"x": "S"})
    # all yvals indices must be < npts and every one of 0..npts-1 must be used
    used = set(int(k) for k in re.findall(r"\(yvals (\d+)\)", " ".join(e for _, e in lets) + final))
    if used != set(range(npts)):
        raise TranslateError(item, f"yvals indices used {sorted(used)} != 0..{npts-1}")
    doc = f"`{file}::{fname}` ({npts} points), translated expression by expression."
    return emit_fn(lean_fn, "(x : σ) (yvals : Nat → σ)", lets, final, doc)


# ----------------------------------------------------------------------------- G4
DEG = ["Septic", "Quintic", "Cubic", "Linear", "Nearest"]


def gen_fast_table(item="G4.fast_window_table"):
    src = strip_comments(read("asynchro_fast.rs"))
    mU = re.search(r"const\s+POLYNOMIAL_LEN_U\s*:\s*usize\s*=\s*(\d+)\s*;", src)
    mI = re.search(r"const\s+POLYNOMIAL_LEN_I\s*:\s*isize\s*=\s*(\d+)\s*;", src)
    if not mU or not mI or mU.group(1) != mI.group(1):
        raise TranslateError(item, "POLYNOMIAL_LEN_U / POLYNOMIAL_LEN_I missing or different")
    plen = int(mU.group(1))
    tables = []
    for which, anchor in (("FastFixedIn", r"impl<T>\s+Resampler<T>\s+for\s+FastFixedIn<T>"),
                          ("FastFixedOut", r"impl<T>\s+Resampler<T>\s+for\s+FastFixedOut<T>")):
        m = re.search(anchor, src)
        if not m:
            raise TranslateError(item, f"impl for {which} not found")
        impl, _ = block_after(src, m.end(), item)
        m2 = re.search(r"match\s+self\.interpolation\s*", impl)
        if not m2:
            raise TranslateError(item, f"{which}: match self.interpolation not found")
        mt, _ = block_after(impl, m2.end(), item)
        tab = {}
        pos = 0
        while True:
            m3 = re.search(r"PolynomialDegree::(\w+)\s*=>\s*", mt[pos:])
            if not m3:
                break
            deg = m3.group(1)
            arm, endpos = block_after(mt, pos + m3.end(), item)
            pos = endpos
            # per-step recurrence must be the common one
            if not re.search(r"t_ratio\s*\+=\s*t_ratio_increment\s*;\s*idx\s*\+=\s*t_ratio\s*;", arm):
                raise TranslateError(item, f"{which}::{deg}: stepping recurrence changed")
            if deg == "Nearest":
                m4 = re.search(r"let\s+start_idx\s*=\s*idx\.floor\(\)\s+as\s+isize\s*;", arm)
                m5 = re.search(r"get_unchecked\(\(start_idx\s*\+\s*2\s*\*\s*POLYNOMIAL_LEN_I\)\s*as\s+usize\)", arm)
                if not m4 or not m5:
                    raise TranslateError(item, f"{which}::Nearest: unexpected body")
                tab[deg] = (0, 1, "nearest")
                continue
            m4 = re.search(r"let\s+start_idx\s*=\s*idx_floor\s+as\s+isize\s*(?:-\s*(\d+))?\s*;", arm)
            m5 = re.search(r"\(start_idx\s*\+\s*2\s*\*\s*POLYNOMIAL_LEN_I\)\s*as\s+usize\s*\.\.\s*"
                           r"\(start_idx\s*\+\s*2\s*\*\s*POLYNOMIAL_LEN_I\s*\+\s*(\d+)\)\s*as\s+usize", arm)
            m6 = re.search(r"=\s*(interp_\w+)\(frac_offset,\s*buf\)", arm)
            m7 = re.search(r"let\s+idx_floor\s*=\s*idx\.floor\(\)\s*;", arm)
            m8 = re.search(r"let\s+frac\s*=\s*idx\s*-\s*idx_floor\s*;", arm)
            if not (m4 and m5 and m6 and m7 and m8):
                raise TranslateError(item, f"{which}::{deg}: unexpected loop body")
            tab[deg] = (int(m4.group(1) or 0), int(m5.group(1)), m6.group(1))
        if sorted(tab) != sorted(DEG):
            raise TranslateError(item, f"{which}: arms {sorted(tab)}")
        tables.append(tab)
    if tables[0] != tables[1]:
        raise TranslateError(item, f"fixed-in and fixed-out window tables differ: {tables}")
    tab = tables[0]
    kern = {"interp_septic": "septic", "interp_quintic": "quintic", "interp_cubic": "cubic",
            "interp_lin": "lin", "nearest": "nearest"}
    out = [f"/-- `POLYNOMIAL_LEN_U` = `POLYNOMIAL_LEN_I` of asynchro_fast.rs -/",
           f"def polyLen : Nat := {plen}", "",
           "/-- per `PolynomialDegree`: (how far the window starts below ⌊idx⌋, window width, kernel);",
           "    read from the five fixed-in and the five fixed-out loop bodies, which agree. -/",
           "def fastWindow : Degree → Nat × Nat × FastKernel"]
    for d in DEG:
        o, w, k = tab[d]
        if k not in kern:
            raise TranslateError(item, f"unknown kernel {k}")
        out.append(f"  | .{d.lower()} => ({o}, {w}, .{kern[k]})")
    return "\n".join(out)


# ----------------------------------------------------------------------------- G5
def gen_nearest_offsets(item="G5.nearest_offsets"):
    src = strip_comments(read("interpolation.rs"))
    out = []
    res = {}
    for n in (3, 4):
        _, body = fn_body(src, f"get_nearest_times_{n}", item)
        m = re.search(r"in\s*\((-?\d+)\.\.(-?\d+)\)\.enumerate\(\)", body)
        if not m:
            raise TranslateError(item, f"get_nearest_times_{n}: offset range not found")
        res[n] = (int(m.group(1)), int(m.group(2)))
        if res[n][1] - res[n][0] != n:
            raise TranslateError(item, f"get_nearest_times_{n}: range {res[n]} has wrong length")
    _, body2 = fn_body(src, "get_nearest_times_2", item)
    if not re.search(r"subindex\s*\+=\s*1\s*;", body2):
        raise TranslateError(item, "get_nearest_times_2: second point is not subindex+1")
    out.append("/-- first sub-sample offset (relative to ⌊frac·f⌋) used by get_nearest_times_k -/")
    out.append("def nearestFirstOffset : Nat → Int")
    out.append("  | 2 => 0")
    out.append(f"  | 3 => {res[3][0]}")
    out.append(f"  | 4 => {res[4][0]}")
    out.append("  | _ => 0")
    return "\n".join(out)


# ----------------------------------------------------------------------------- G3
WIN = ["Blackman", "Blackman2", "BlackmanHarris", "BlackmanHarris2", "Hann", "Hann2"]
WIN_LEAN = {"Blackman": "blackman", "Blackman2": "blackman2", "BlackmanHarris": "blackmanHarris",
            "BlackmanHarris2": "blackmanHarris2", "Hann": "hann", "Hann2": "hann2"}


def gen_window_fn(fname, lean_fn, item):
    src = strip_comments(read("windows.rs"))
    sig, body = fn_body(src, fname, item)
    if not re.search(r"npoints\s*:\s*usize", sig):
        raise TranslateError(item, f"unexpected signature {sig!r}")
    m = re.search(r"for\s*\(x,\s*item\)\s*in\s*window\.iter_mut\(\)\.enumerate\(\)\s*", body)
    if not m:
        raise TranslateError(item, "point loop not found")
    pre = body[:m.start()]
    pre, nvec = re.subn(r"let\s+mut\s+window\s*=\s*vec!\[T::zero\(\);\s*npoints\]\s*;", "", pre)
    if nvec != 1:
        raise TranslateError(item, "window allocation `vec![T::zero(); npoints]` not found")
    loop, _ = block_after(body, m.end(), item)
    env = {"npoints": "N", "x": "N"}
    lets = []
    for s in [s.strip() for s in pre.split(";")]:
        if not s:
            continue
        if re.match(r"trace!\s*\(", s):
            continue
        mm = re.match(r"let\s+([A-Za-z_][A-Za-z0-9_]*)\s*=\s*(.*)$", s, re.S)
        if not mm:
            raise TranslateError(item, f"unsupported statement {s[:60]!r}")
        p = Parser(lex(mm.group(2), item), item, env)
        e = p.expr("S")
        p.done()
        lets.append((mm.group(1), e))
        env[mm.group(1)] = "S"
    stmts = [s.strip() for s in loop.split(";") if s.strip()]
    final = None
    for s in stmts:
        mm = re.match(r"let\s+([A-Za-z_][A-Za-z0-9_]*)\s*=\s*(.*)$", s, re.S)
        if mm:
            p = Parser(lex(mm.group(2), item), item, env)
            e = p.expr("S")
            p.done()
            lets.append((mm.group(1), e))
            env[mm.group(1)] = "S"
            continue
        mm = re.match(r"\*item\s*=\s*(.*)$", s, re.S)
        if mm and final is None:
            p = Parser(lex(mm.group(1), item), item, env)
            final = p.expr("S")
            p.done()
            continue
        raise TranslateError(item, f"unsupported loop statement {s[:60]!r}")
    if final is None:
        raise TranslateError(item, "no `*item = …` assignment")
    if not re.search(r"\}\s*window\s*$", body.strip()):
        raise TranslateError(item, "function does not return `window`")
    doc = f"`windows.rs::{fname}`: value of point `x` of an `npoints`-point window."
    return emit_fn(lean_fn, "(npoints x : Nat)", lets, final, doc, trig=True)


def gen_make_window(item="G3.make_window"):
    src = strip_comments(read("windows.rs"))
    _, body = fn_body(src, "make_window", item)
    ms = list(re.finditer(r"match\s+windowfunc\s*", body))
    if len(ms) != 2:
        raise TranslateError(item, "expected two `match windowfunc`")
    first, _ = block_after(body, ms[0].end(), item)
    second, _ = block_after(body, ms[1].end(), item)
    base = {}
    for m in re.finditer(r"((?:WindowFunction::\w+\s*\|?\s*)+)=>\s*\{?\s*(\w+)::<T>\(npoints\)", first):
        for v in re.findall(r"WindowFunction::(\w+)", m.group(1)):
            base[v] = m.group(2)
    if sorted(base) != sorted(WIN):
        raise TranslateError(item, f"base window arms {sorted(base)}")
    m = re.search(r"((?:WindowFunction::\w+\s*\|?\s*)+)=>\s*\{\s*window\.iter_mut\(\)\.for_each\(\|y\|\s*\*y\s*=\s*\*y\s*\*\s*\*y\)", second)
    if not m:
        raise TranslateError(item, "squaring arm not found")
    squared = set(re.findall(r"WindowFunction::(\w+)", m.group(1)))
    if not re.search(r"_\s*=>\s*\{\s*\}", second):
        raise TranslateError(item, "default arm of squaring match is not empty")
    fn = {"blackman_harris": "blackman_harris_at", "blackman": "blackman_at", "hann": "hann_at"}
    out = ["/-- `windows.rs::make_window`, point `x`: base window, squared for the `…2` variants. -/",
           "def make_window_at {ρ σ : Type} [RNum ρ] [SNum ρ σ] [STrig σ] (w : Window) (npoints x : Nat) : σ :=",
           "  let v : σ := match w with"]
    for w in WIN:
        if base[w] not in fn:
            raise TranslateError(item, f"unknown base window fn {base[w]}")
        out.append(f"    | .{WIN_LEAN[w]} => {fn[base[w]]} npoints x")
    out.append("  match w with")
    for w in WIN:
        out.append(f"    | .{WIN_LEAN[w]} => " + ("v * v" if w in squared else "v"))
    out.append("")
    out.append("/-- which variants are squared -/")
    out.append("def windowSquared : Window → Bool")
    for w in WIN:
        out.append(f"  | .{WIN_LEAN[w]} => " + ("true" if w in squared else "false"))
    return "\n".join(out)


def gen_cutoff(item="G3.calculate_cutoff"):
    src = strip_comments(read("windows.rs"))
    sig, body = fn_body(src, "calculate_cutoff", item)
    m = re.search(r"let\s*\(k1,\s*k2,\s*k3\)\s*=\s*match\s+windowfunc\s*", body)
    if not m:
        raise TranslateError(item, "coefficient match not found")
    tab, endpos = block_after(body, m.end(), item)
    coeffs = {}
    for mm in re.finditer(r"WindowFunction::(\w+)\s*=>\s*\(\s*T::coerce\(([\d.eE+-]+)\),\s*T::coerce\(([\d.eE+-]+)\),\s*T::coerce\(([\d.eE+-]+)\),?\s*\)", tab):
        coeffs[mm.group(1)] = (mm.group(2), mm.group(3), mm.group(4))
    if sorted(coeffs) != sorted(WIN):
        raise TranslateError(item, f"coefficient arms {sorted(coeffs)}")
    rest = body[endpos:].strip()
    if not rest.startswith(";"):
        raise TranslateError(item, "unexpected text after coefficient table")
    rest = rest[1:]
    env = {"npoints": "N", "k1": "S", "k2": "S", "k3": "S"}
    lets, final = parse_straightline(rest, item, env)
    out = ["/-- coefficient table of `windows.rs::calculate_cutoff` -/",
           "def cutoffCoeffs {ρ σ : Type} [RNum ρ] [SNum ρ σ] : Window → σ × σ × σ"]
    for w in WIN:
        a, b, c = coeffs[w]
        out.append(f"  | .{WIN_LEAN[w]} => ((SNum.ofCtl {lit_to_lean(a)}), (SNum.ofCtl {lit_to_lean(b)}), (SNum.ofCtl {lit_to_lean(c)}))")
    out.append("")
    out.append("/-- `windows.rs::calculate_cutoff` -/")
    out.append("def calculate_cutoff {ρ σ : Type} [RNum ρ] [SNum ρ σ] (npoints : Nat) (w : Window) : σ :=")
    out.append("  let k : σ × σ × σ := cutoffCoeffs w")
    out.append("  let k1 : σ := k.1")
    out.append("  let k2 : σ := k.2.1")
    out.append("  let k3 : σ := k.2.2")
    for n, e in lets:
        out.append(f"  let {lean_name(n)} : σ := {e}")
    out.append(f"  {final}")
    return "\n".join(out)



# ----------------------------------------------------------------------------- G6 : effect table (C09)
ALLOC_PATTERNS = [
    (r"\bVec::", "Vec::"), (r"\bvec!", "vec!"), (r"\.collect\b", ".collect"), (r"\.to_vec\(", ".to_vec("),
    (r"\.to_owned\(", ".to_owned("), (r"\bBox::new\b", "Box::new"), (r"\bString\b", "String"), (r"\bformat!", "format!"),
    (r"\.push\(", ".push("), (r"\bwith_capacity\b", "with_capacity"), (r"\.clone\(\)", ".clone()"),
    (r"\.resize\(", ".resize("), (r"\.extend\w*\(", ".extend("), (r"\.process\(", ".process( (FFT without scratch)"),
    (r"\bmake_scratch_vec\b", "make_scratch_vec"), (r"\.insert\(", ".insert("), (r"\bArc::new\b", "Arc::new"),
    (r"\bplan_fft_\w+\(", "plan_fft"), (r"\bRealFftPlanner\b", "RealFftPlanner"), (r"\.to_string\(", ".to_string("),
]
RT_METHODS = ["process_into_buffer", "set_resample_ratio", "set_resample_ratio_relative", "set_chunk_size", "reset",
              "input_frames_max", "input_frames_next", "output_frames_max", "output_frames_next", "output_delay",
              "nbr_channels"]
WRAPPERS = ["process", "process_partial_into_buffer", "process_partial"]
RS_TYPES = ["FastFixedIn", "FastFixedOut", "SincFixedIn", "SincFixedOut", "FftFixedIn", "FftFixedOut", "FftFixedInOut"]
RS_FILES = ["lib.rs", "asynchro_fast.rs", "asynchro_sinc.rs", "synchro.rs", "interpolation.rs", "sinc.rs", "windows.rs",
            "sample.rs", "error.rs", "sinc_interpolator/mod.rs", "sinc_interpolator/sinc_interpolator_avx.rs",
            "sinc_interpolator/sinc_interpolator_sse.rs", "sinc_interpolator/sinc_interpolator_neon.rs"]


def strip_log_macros(body):
    """remove trace!/debug!/info!/warn!/error! invocations (compiled out: the `log` feature is off)"""
    out = []
    i = 0
    pat = re.compile(r"\b(trace|debug|info|warn|error)!\s*\(")
    while True:
        m = pat.search(body, i)
        if not m:
            out.append(body[i:])
            break
        out.append(body[i:m.start()])
        depth = 0
        j = m.end() - 1
        while j < len(body):
            if body[j] == "(":
                depth += 1
            elif body[j] == ")":
                depth -= 1
                if depth == 0:
                    break
            j += 1
        i = j + 1
    return "".join(out)


def collect_functions(item):
    """all fn items outside #[cfg(test)]: list of (owner type or '', name, body)"""
    fns = []
    for rel in RS_FILES:
        path = os.path.join(SRC, rel)
        if not os.path.exists(path):
            raise TranslateError(item, f"source file {rel} missing")
        src = strip_comments(open(path).read())
        cut = src.find("#[cfg(test)]")
        if cut >= 0:
            src = src[:cut]
        # impl blocks
        spans = []
        for m in re.finditer(r"\bimpl\b[^{;]*?\bfor\s+(\w+)[^{;]*\{|\bimpl\b\s*(?:<[^>]*>)?\s*(\w+)[^{;]*\{", src):
            owner = m.group(1) or m.group(2)
            try:
                _, end = block_after(src, m.end() - 1, item)
            except Exception:
                continue
            spans.append((m.end() - 1, end, owner))
        # trait blocks (default methods)
        for m in re.finditer(r"\btrait\s+(\w+)[^{;]*\{", src):
            try:
                _, end = block_after(src, m.end() - 1, item)
            except Exception:
                continue
            spans.append((m.end() - 1, end, "trait " + m.group(1)))
        for m in re.finditer(r"\bfn\s+(\w+)\b", src):
            name = m.group(1)
            # skip generics (nested angle brackets) up to the opening parenthesis of the parameter list
            k = m.end()
            adepth = 0
            while k < len(src):
                if src[k] == "<":
                    adepth += 1
                elif src[k] == ">":
                    adepth -= 1
                elif src[k] == "(" and adepth == 0:
                    break
                elif src[k] in "{;":
                    break
                k += 1
            if k >= len(src) or src[k] != "(":
                continue
            k += 1
            depth = 1
            while k < len(src) and depth > 0:
                if src[k] == "(":
                    depth += 1
                elif src[k] == ")":
                    depth -= 1
                k += 1
            while k < len(src) and src[k] not in "{;":
                k += 1
            if k >= len(src) or src[k] == ";":
                continue
            body, _ = block_after(src, k, item)
            owner = ""
            best = None
            for a, b, o in spans:
                if a < m.start() < b and (best is None or a > best[0]):
                    best = (a, o)
            if best:
                owner = best[1]
            fns.append((owner, name, strip_log_macros(body), rel))
    return fns


def gen_effects(item="G6.effects"):
    fns = collect_functions(item)
    by_name = {}
    for owner, name, body, rel in fns:
        by_name.setdefault(name, []).append((owner, body, rel))
    macro_bodies = {}
    # macro implement_resampler! only forwards; its bodies are inside macro_rules and named like the trait methods

    def closure(owner, name):
        """crate functions reachable from owner::name, resolved by NAME (over-approximation)"""
        start = [(o, b, r) for (o, b, r) in by_name.get(name, []) if o == owner]
        if not start:
            # default method of the trait
            start = [(o, b, r) for (o, b, r) in by_name.get(name, []) if o == "trait Resampler"]
        if not start:
            raise TranslateError(item, f"{owner}::{name} not found")
        seen = set()
        sites = []
        work = [(owner + "::" + name, b) for (o, b, r) in start]
        while work:
            qn, body = work.pop()
            if qn in seen:
                continue
            seen.add(qn)
            for pat, label in ALLOC_PATTERNS:
                for _ in re.finditer(pat, body):
                    sites.append(f"{qn}: {label}")
            for m in re.finditer(r"\b([a-z_][a-z0-9_]*)\s*(?:::<[^>]*>)?\s*\(", body):
                callee = m.group(1)
                if callee in ("if", "while", "for", "match", "return", "as", "fn", "let", "in", "loop", "unsafe"):
                    continue
                # `.process(` on an FFT object is std-external; the crate's wrapper `process` is only reachable
                # through an explicit self.process / Resampler::process call
                pre = body[max(0, m.start() - 1):m.start()]
                for (o, b, r) in by_name.get(callee, []):
                    if callee in WRAPPERS and name not in WRAPPERS and not re.search(r"(self|Resampler::|rubato::Resampler::)\s*\.?\s*$", body[max(0, m.start() - 24):m.start()]):
                        continue
                    if callee == "new":
                        # constructors are never called on the real-time path unless written as Type::new( — count them
                        pass
                    work.append(((o + "::" if o else "") + callee, b))
        return seen, sites

    lines = []
    rt_rows = []
    wr_rows = []
    for ti, ty in enumerate(RS_TYPES):
        for mi, mname in enumerate(RT_METHODS):
            reach, sites = closure(ty, mname)
            rt_rows.append((ti, mi, len(reach), len(sites), ty, mname, sites))
        for mi, mname in enumerate(WRAPPERS):
            reach, sites = closure(ty, mname)
            wr_rows.append((ti, mi, len(reach), len(sites), ty, mname, sites))
    out = ["/-- real-time methods: (type id, method id, crate functions reachable by name, allocating constructs on them).",
           "    Functions are resolved by NAME over all non-test code of the crate (an over-approximation of the call graph);",
           "    `trace!`/`debug!` invocations are removed (the `log` feature is off). -/",
           "def rtTable : List (Nat × Nat × Nat × Nat) := ["]
    rows = []
    for ti, mi, nr, ns, ty, mname, sites in rt_rows:
        rows.append(f"  ({ti}, {mi}, {nr}, {ns})  /- {ty}::{mname}" + ("  SITES: " + "; ".join(sites[:4]) if sites else "") + " -/")
    out.append(",\n".join(rows) + "]")
    out.append("")
    out.append("/-- the allocating convenience wrappers, same columns -/")
    out.append("def wrapperTable : List (Nat × Nat × Nat × Nat) := [")
    rows = []
    for ti, mi, nr, ns, ty, mname, sites in wr_rows:
        rows.append(f"  ({ti}, {mi}, {nr}, {ns})  /- {ty}::{mname} -/")
    out.append(",\n".join(rows) + "]")
    out.append("")
    out.append(f"def nTypes : Nat := {len(RS_TYPES)}")
    out.append(f"def nRtMethods : Nat := {len(RT_METHODS)}")
    return "\n".join(out)


# ----------------------------------------------------------------------------- driver
HEADER = """/-
GENERATED by /verif/translate/rs2lean.py from /repo/src — do not edit.
Every definition below is a token-by-token translation of a Rust item; the theorems of
RubatoProofs are stated about these definitions, so they are re-checked against what the
source says on every run.
-/
import RubatoModel.Num
import RubatoModel.Types

set_option linter.unusedVariables false

namespace Rubato.Gen
open Rubato
"""


def generate():
    parts = [HEADER]
    parts.append("namespace Fast")
    for fname, lean_fn, n in (("interp_septic", "interp_septic", 8), ("interp_quintic", "interp_quintic", 6),
                              ("interp_cubic", "interp_cubic", 4), ("interp_lin", "interp_lin", 2)):
        parts.append(gen_interp("asynchro_fast.rs", fname, lean_fn, n, f"G1.fast.{fname}"))
        parts.append("")
    parts.append(gen_fast_table())
    parts.append("end Fast\n")
    parts.append("namespace Sinc")
    for fname, lean_fn, n in (("interp_cubic", "interp_cubic", 4), ("interp_quad", "interp_quad", 3),
                              ("interp_lin", "interp_lin", 2)):
        parts.append(gen_interp("asynchro_sinc.rs", fname, lean_fn, n, f"G2.sinc.{fname}"))
        parts.append("")
    parts.append(gen_nearest_offsets())
    parts.append("end Sinc\n")
    parts.append("namespace Win")
    for fname in ("blackman_harris", "blackman", "hann"):
        parts.append(gen_window_fn(fname, fname + "_at", f"G3.{fname}"))
        parts.append("")
    parts.append(gen_make_window())
    parts.append("")
    parts.append(gen_cutoff())
    parts.append("end Win\n")
    parts.append("namespace Effects")
    parts.append(gen_effects())
    parts.append("end Effects\n")
    parts.append("end Rubato.Gen")
    return "\n".join(parts) + "\n"


def main():
    try:
        text = generate()
    except TranslateError as e:
        with open(ERR, "w") as f:
            json.dump({"item": e.item, "message": e.msg}, f)
        print(f"rs2lean: TRANSLATION FAILED item={e.item}: {e.msg}", file=sys.stderr)
        return 2
    if os.path.exists(ERR):
        os.remove(ERR)
    old = None
    if os.path.exists(OUT):
        with open(OUT) as f:
            old = f.read()
    if old != text:
        with open(OUT, "w") as f:
            f.write(text)
        print("rs2lean: Generated.lean updated")
    else:
        print("rs2lean: Generated.lean unchanged")
    return 0


if __name__ == "__main__":
    sys.exit(main())
