//! Interpreter of the operation protocol over the real rubato crate.
use crate::alloc_count;
use crate::signal::Sig;
use rubato::sinc_interpolator::sinc_interpolator_avx::AvxInterpolator;
use rubato::sinc_interpolator::sinc_interpolator_sse::SseInterpolator;
use rubato::sinc_interpolator::{ScalarInterpolator, SincInterpolator};
use rubato::{
    FastFixedIn, FastFixedOut, FftFixedIn, FftFixedInOut, FftFixedOut, PolynomialDegree,
    ResampleError, Resampler, ResamplerConstructionError, Sample, SincFixedIn, SincFixedOut,
    SincInterpolationParameters, SincInterpolationType, VecResampler, WindowFunction,
};
use std::panic::{catch_unwind, AssertUnwindSafe};

pub trait Smp: Sample + 'static {
    const NAME: &'static str;
    fn of64(x: f64) -> Self;
    fn bits(self) -> u64;
    fn sentinel() -> Self;
}
impl Smp for f64 {
    const NAME: &'static str = "f64";
    fn of64(x: f64) -> f64 {
        x
    }
    fn bits(self) -> u64 {
        self.to_bits()
    }
    fn sentinel() -> f64 {
        f64::from_bits(0x7FF8_DEAD_BEEF_0001)
    }
}
impl Smp for f32 {
    const NAME: &'static str = "f32";
    fn of64(x: f64) -> f32 {
        x as f32
    }
    fn bits(self) -> u64 {
        self.to_bits() as u64
    }
    fn sentinel() -> f32 {
        f32::from_bits(0x7FC0_BEEF)
    }
}

/// Probe interpolator: same preconditions as the real ones (same asserts), and an integer-weight
/// FIR over the whole window so that every tap position influences the (exactly reproducible) value.
pub struct Probe {
    len: usize,
    nbr: usize,
}
pub fn probe_weight(k: usize, sub: usize) -> f64 {
    ((k * 7 + sub * 3) % 11) as f64 - 5.0
}
impl<T: Smp> SincInterpolator<T> for Probe {
    fn get_sinc_interpolated(&self, wave: &[T], index: usize, subindex: usize) -> T {
        assert!((index + self.len) < wave.len(), "probe: index");
        assert!(subindex < self.nbr, "probe: subindex");
        let mut acc = T::zero();
        for k in 0..self.len {
            acc = acc + wave[index + k] * T::of64(probe_weight(k, subindex));
        }
        acc
    }
    fn len(&self) -> usize {
        self.len
    }
    fn nbr_sincs(&self) -> usize {
        self.nbr
    }
}

/// Linear-interpolation probe: a 2-tap "interpolator" that evaluates the straight line through the two samples
/// around the centre of the window at the instant the polyphase branch `subindex` stands for,
/// `index + len/2 - 1 + (subindex+1)/nbr`. With the index signal the resampler's output is the evaluation instant.
pub struct LProbe {
    len: usize,
    nbr: usize,
}
impl<T: Smp> SincInterpolator<T> for LProbe {
    fn get_sinc_interpolated(&self, wave: &[T], index: usize, subindex: usize) -> T {
        assert!((index + self.len) < wave.len(), "lprobe: index");
        assert!(subindex < self.nbr, "lprobe: subindex");
        let a = wave[index + self.len / 2 - 1];
        let b = wave[index + self.len / 2];
        let w = T::of64((subindex as f64 + 1.0) / self.nbr as f64);
        a + w * (b - a)
    }
    fn len(&self) -> usize {
        self.len
    }
    fn nbr_sincs(&self) -> usize {
        self.nbr
    }
}

pub enum Inst<T: Smp> {
    FastIn(FastFixedIn<T>),
    FastOut(FastFixedOut<T>),
    SincIn(SincFixedIn<T>),
    SincOut(SincFixedOut<T>),
    FftIn(FftFixedIn<T>),
    FftOut(FftFixedOut<T>),
    FftIo(FftFixedInOut<T>),
}

macro_rules! with_inst {
    ($inst:expr, $r:ident => $body:expr) => {
        match $inst {
            Inst::FastIn($r) => $body,
            Inst::FastOut($r) => $body,
            Inst::SincIn($r) => $body,
            Inst::SincOut($r) => $body,
            Inst::FftIn($r) => $body,
            Inst::FftOut($r) => $body,
            Inst::FftIo($r) => $body,
        }
    };
}

pub struct Slot<T: Smp> {
    inst: Inst<T>,
    consumed: u64,
}

pub enum AnySlot {
    F32(Slot<f32>),
    F64(Slot<f64>),
}

pub struct Session {
    slots: Vec<Option<AnySlot>>,
    dead: bool,
}

fn hexf64(s: &str) -> Option<f64> {
    u64::from_str_radix(s, 16).ok().map(f64::from_bits)
}
fn hexf32(s: &str) -> Option<f32> {
    u32::from_str_radix(s, 16).ok().map(f32::from_bits)
}

fn degree(c: usize) -> Option<PolynomialDegree> {
    Some(match c {
        0 => PolynomialDegree::Septic,
        1 => PolynomialDegree::Quintic,
        2 => PolynomialDegree::Cubic,
        3 => PolynomialDegree::Linear,
        4 => PolynomialDegree::Nearest,
        _ => return None,
    })
}
fn sinc_interp(c: usize) -> Option<SincInterpolationType> {
    Some(match c {
        0 => SincInterpolationType::Cubic,
        1 => SincInterpolationType::Quadratic,
        2 => SincInterpolationType::Linear,
        3 => SincInterpolationType::Nearest,
        _ => return None,
    })
}
pub fn window(c: usize) -> Option<WindowFunction> {
    Some(match c {
        0 => WindowFunction::Blackman,
        1 => WindowFunction::Blackman2,
        2 => WindowFunction::BlackmanHarris,
        3 => WindowFunction::BlackmanHarris2,
        4 => WindowFunction::Hann,
        5 => WindowFunction::Hann2,
        _ => return None,
    })
}

fn ctor_err(e: ResamplerConstructionError) -> String {
    match e {
        ResamplerConstructionError::InvalidSampleRate { input, output } => {
            format!("err InvalidSampleRate {} {}", input, output)
        }
        ResamplerConstructionError::InvalidRelativeRatio(_) => "err InvalidRelativeRatio".into(),
        ResamplerConstructionError::InvalidRatio(_) => "err InvalidRatio".into(),
    }
}

pub fn res_err(e: &ResampleError) -> String {
    match e {
        ResampleError::RatioOutOfBounds { .. } => "err RatioOutOfBounds".into(),
        ResampleError::SyncNotAdjustable => "err SyncNotAdjustable".into(),
        ResampleError::WrongNumberOfInputChannels { expected, actual } => {
            format!("err WrongNumberOfInputChannels {} {}", expected, actual)
        }
        ResampleError::WrongNumberOfOutputChannels { expected, actual } => {
            format!("err WrongNumberOfOutputChannels {} {}", expected, actual)
        }
        ResampleError::WrongNumberOfMaskChannels { expected, actual } => {
            format!("err WrongNumberOfMaskChannels {} {}", expected, actual)
        }
        ResampleError::InsufficientInputBufferSize {
            channel,
            expected,
            actual,
        } => format!(
            "err InsufficientInputBufferSize {} {} {}",
            channel, expected, actual
        ),
        ResampleError::InsufficientOutputBufferSize {
            channel,
            expected,
            actual,
        } => format!(
            "err InsufficientOutputBufferSize {} {} {}",
            channel, expected, actual
        ),
        ResampleError::InvalidChunkSize { max, requested } => {
            format!("err InvalidChunkSize {} {}", max, requested)
        }
        ResampleError::ChunkSizeNotAdjustable => "err ChunkSizeNotAdjustable".into(),
    }
}

fn make_interp<T: Smp>(
    which: &str,
    sinc_len: usize,
    ratio: f64,
    fcut: f32,
    osf: usize,
    win: WindowFunction,
) -> Option<Box<dyn SincInterpolator<T>>> {
    // the arithmetic of rubato::make_interpolator (private in this snapshot)
    let len = 8 * (((sinc_len as f32) / 8.0).ceil() as usize);
    let fc = if ratio >= 1.0 { fcut } else { fcut * ratio as f32 };
    Some(match which {
        "probe" => Box::new(Probe { len, nbr: osf }),
        "lprobe" => Box::new(LProbe { len, nbr: osf }),
        // a user-implemented interpolator whose len() is not rounded to a multiple of 8
        "rprobe" => Box::new(Probe { len: sinc_len, nbr: osf }),
        "scalar" => Box::new(ScalarInterpolator::<T>::new(len, osf, fc, win)),
        "avx" => Box::new(AvxInterpolator::<T>::new(len, osf, fc, win).ok()?),
        "sse" => Box::new(SseInterpolator::<T>::new(len, osf, fc, win).ok()?),
        _ => return None,
    })
}

fn new_inst<T: Smp>(t: &[&str]) -> Result<Result<Inst<T>, ResamplerConstructionError>, String> {
    let bad = || "bad-op".to_string();
    let kind = *t.first().ok_or_else(bad)?;
    let p = &t[1..];
    let us = |i: usize| -> Result<usize, String> { p.get(i).and_then(|s| s.parse().ok()).ok_or_else(bad) };
    let fl = |i: usize| -> Result<f64, String> { p.get(i).and_then(|s| hexf64(s)).ok_or_else(bad) };
    Ok(match kind {
        "fastin" => FastFixedIn::<T>::new(fl(0)?, fl(1)?, degree(us(2)?).ok_or_else(bad)?, us(3)?, us(4)?)
            .map(Inst::FastIn),
        "fastout" => FastFixedOut::<T>::new(fl(0)?, fl(1)?, degree(us(2)?).ok_or_else(bad)?, us(3)?, us(4)?)
            .map(Inst::FastOut),
        "sincin" | "sincout" => {
            let ratio = fl(0)?;
            let maxrel = fl(1)?;
            let it = sinc_interp(us(2)?).ok_or_else(bad)?;
            let sinc_len = us(3)?;
            let osf = us(4)?;
            let fcut = p.get(5).and_then(|s| hexf32(s)).ok_or_else(bad)?;
            let win = window(us(6)?).ok_or_else(bad)?;
            let chunk = us(7)?;
            let nch = us(8)?;
            let which = *p.get(9).ok_or_else(bad)?;
            if which == "auto" {
                let params = SincInterpolationParameters {
                    sinc_len,
                    f_cutoff: fcut,
                    oversampling_factor: osf,
                    interpolation: it,
                    window: win,
                };
                if kind == "sincin" {
                    SincFixedIn::<T>::new(ratio, maxrel, params, chunk, nch).map(Inst::SincIn)
                } else {
                    SincFixedOut::<T>::new(ratio, maxrel, params, chunk, nch).map(Inst::SincOut)
                }
            } else {
                let ip = make_interp::<T>(which, sinc_len, ratio, fcut, osf, win).ok_or_else(bad)?;
                if kind == "sincin" {
                    SincFixedIn::<T>::new_with_interpolator(ratio, maxrel, it, ip, chunk, nch).map(Inst::SincIn)
                } else {
                    SincFixedOut::<T>::new_with_interpolator(ratio, maxrel, it, ip, chunk, nch).map(Inst::SincOut)
                }
            }
        }
        "fftin" => FftFixedIn::<T>::new(us(0)?, us(1)?, us(2)?, us(3)?, us(4)?).map(Inst::FftIn),
        "fftout" => FftFixedOut::<T>::new(us(0)?, us(1)?, us(2)?, us(3)?, us(4)?).map(Inst::FftOut),
        "fftio" => FftFixedInOut::<T>::new(us(0)?, us(1)?, us(2)?, us(3)?).map(Inst::FftIo),
        _ => return Err(bad()),
    })
}

fn getters<T: Smp>(inst: &Inst<T>) -> String {
    with_inst!(inst, r => format!(
        "g {} {} {} {} {} {}",
        Resampler::input_frames_next(r),
        Resampler::input_frames_max(r),
        Resampler::output_frames_next(r),
        Resampler::output_frames_max(r),
        Resampler::output_delay(r),
        Resampler::nbr_channels(r)
    ))
}

fn fnv(vals: impl Iterator<Item = u64>) -> u64 {
    let mut h: u64 = 0xcbf29ce484222325;
    for v in vals {
        h ^= v;
        h = h.wrapping_mul(0x100000001b3);
    }
    h
}

/// `n+K`, `n-K`, `m+K`, `m-K`, `=K`, `pK` (= max(1, next-K))
fn size_spec(s: &str, next: usize, max: usize) -> Option<usize> {
    let (h, t) = s.split_at(1);
    match h {
        "=" => t.parse().ok(),
        "p" => {
            // at least one frame: max(1, next - K)
            let d: i64 = if t.is_empty() { 0 } else { t.parse().ok()? };
            let v = next as i64 - d;
            Some(if v < 1 { 1 } else { v as usize })
        }
        "n" | "m" => {
            let base = if h == "n" { next } else { max } as i64;
            let d: i64 = if t.is_empty() { 0 } else { t.parse().ok()? };
            let v = base + d;
            Some(if v < 0 { 0 } else { v as usize })
        }
        _ => None,
    }
}

struct CallOpts {
    ic: Option<usize>,
    oc: Option<usize>,
    si: Vec<(usize, usize)>,
    so: Vec<(usize, usize)>,
    em: bool,
    dynamic: bool,
    dump: bool,
    /// channel offset for the signal: channel c carries the data of channel c+co (C11 twins)
    co: usize,
    /// frames of this call from this index on are zero (C16: zero padding), a size spec
    zl: Option<String>,
    /// per-channel zero-from (absolute frame count), overrides zl for that channel
    zc: Vec<(usize, usize)>,
}

fn parse_opts(t: &[&str]) -> Option<CallOpts> {
    let mut o = CallOpts {
        ic: None,
        oc: None,
        si: vec![],
        so: vec![],
        em: false,
        dynamic: false,
        dump: false,
        co: 0,
        zl: None,
        zc: vec![],
    };
    for w in t {
        if let Some(v) = w.strip_prefix("ic=") {
            o.ic = Some(v.parse().ok()?);
        } else if let Some(v) = w.strip_prefix("oc=") {
            o.oc = Some(v.parse().ok()?);
        } else if let Some(v) = w.strip_prefix("si=") {
            let (a, b) = v.split_once(':')?;
            o.si.push((a.parse().ok()?, b.parse().ok()?));
        } else if let Some(v) = w.strip_prefix("so=") {
            let (a, b) = v.split_once(':')?;
            o.so.push((a.parse().ok()?, b.parse().ok()?));
        } else if let Some(v) = w.strip_prefix("co=") {
            o.co = v.parse().ok()?;
        } else if let Some(v) = w.strip_prefix("zl=") {
            o.zl = Some(v.to_string());
        } else if let Some(v) = w.strip_prefix("zc=") {
            let (a, b) = v.split_once(':')?;
            o.zc.push((a.parse().ok()?, b.parse().ok()?));
        } else if *w == "em" {
            o.em = true;
        } else if *w == "dyn" {
            o.dynamic = true;
        } else if *w == "dump" {
            o.dump = true;
        } else {
            return None;
        }
    }
    Some(o)
}

fn parse_mask(s: &str) -> Option<Option<Vec<bool>>> {
    if s == "-" {
        return Some(None);
    }
    if s == "e" {
        return Some(Some(vec![]));
    }
    let mut v = vec![];
    for c in s.chars() {
        match c {
            '0' => v.push(false),
            '1' => v.push(true),
            _ => return None,
        }
    }
    Some(Some(v))
}

fn data_section<T: Smp>(chans: &[Vec<T>], upto: usize, active: &dyn Fn(usize) -> bool, dump: bool) -> String {
    let mut s = String::from("d");
    for (c, v) in chans.iter().enumerate() {
        if !active(c) {
            s.push_str(" -");
            continue;
        }
        let n = upto.min(v.len());
        if dump {
            s.push_str(" v");
            for (k, x) in v[..n].iter().enumerate() {
                if k > 0 {
                    s.push(',');
                }
                s.push_str(&format!("{:x}", x.bits()));
            }
        } else {
            s.push_str(&format!(" {:016x}", fnv(v[..n].iter().map(|x| x.bits()))));
        }
    }
    s
}

impl<T: Smp> Slot<T> {
    fn make_input(&self, sig: &Sig, nch_given: usize, len_all: usize, o: &CallOpts, mask: &Option<Vec<bool>>) -> Vec<Vec<T>> {
        let (inn, inm) = with_inst!(&self.inst, r => (Resampler::input_frames_next(r), Resampler::input_frames_max(r)));
        let zl = o.zl.as_ref().and_then(|s| size_spec(s, inn, inm)).unwrap_or(usize::MAX);
        let mut v = Vec::with_capacity(nch_given);
        for ch in 0..nch_given {
            let mut len = len_all;
            for (c, l) in &o.si {
                if *c == ch {
                    len = *l;
                }
            }
            let act = mask.as_ref().map(|m| m.get(ch).copied().unwrap_or(true)).unwrap_or(true);
            if o.em && !act {
                len = 0;
            }
            let mut zl = zl;
            for (c, z) in &o.zc {
                if *c == ch {
                    zl = *z;
                }
            }
            let mut cv = Vec::with_capacity(len);
            for k in 0..len {
                if k >= zl {
                    cv.push(T::of64(0.0));
                } else {
                    cv.push(T::of64(sig.value(ch + o.co, self.consumed + k as u64)));
                }
            }
            v.push(cv);
        }
        v
    }

    fn make_output(&self, nch_given: usize, len_all: usize, o: &CallOpts) -> Vec<Vec<T>> {
        let mut v = Vec::with_capacity(nch_given);
        for ch in 0..nch_given {
            let mut len = len_all;
            for (c, l) in &o.so {
                if *c == ch {
                    len = *l;
                }
            }
            v.push(vec![T::sentinel(); len]);
        }
        v
    }

    /// proc / part
    fn call_into(&mut self, t: &[&str], partial: bool) -> String {
        let bad = "bad-op".to_string();
        if t.len() < 4 {
            return bad;
        }
        let mask = match parse_mask(t[0]) {
            Some(m) => m,
            None => return bad,
        };
        let sig = match Sig::parse(t[3]) {
            Some(s) => s,
            None => return bad,
        };
        let o = match parse_opts(&t[4..]) {
            Some(o) => o,
            None => return bad,
        };
        // a caller that holds the resampler as `&mut dyn VecResampler` sizes its buffers with THAT trait's getters
        let (inn, inm, outn, outm, nch) = if o.dynamic {
            with_inst!(&self.inst, r => {
                let d: &dyn VecResampler<T> = r;
                (d.input_frames_next(), d.input_frames_max(), d.output_frames_next(), d.output_frames_max(), d.nbr_channels())
            })
        } else {
            with_inst!(&self.inst, r => (
                Resampler::input_frames_next(r), Resampler::input_frames_max(r),
                Resampler::output_frames_next(r), Resampler::output_frames_max(r), Resampler::nbr_channels(r)))
        };
        let in_none = partial && t[1] == "none";
        let inlen = if in_none {
            0
        } else {
            match size_spec(t[1], inn, inm) {
                Some(v) => v,
                None => return bad,
            }
        };
        let outlen = match size_spec(t[2], outn, outm) {
            Some(v) => v,
            None => return bad,
        };
        let wave_in = self.make_input(&sig, o.ic.unwrap_or(nch), inlen, &o, &mask);
        let mut wave_out = self.make_output(o.oc.unwrap_or(nch), outlen, &o);
        let mask_ref = mask.as_deref();
        let before = alloc_count::snap();
        let res = with_inst!(&mut self.inst, r => {
            if partial {
                let wi: Option<&[Vec<T>]> = if in_none { None } else { Some(&wave_in[..]) };
                if o.dynamic {
                    let d: &mut dyn VecResampler<T> = r;
                    d.process_partial_into_buffer(wi, &mut wave_out[..], mask_ref)
                } else {
                    Resampler::process_partial_into_buffer(r, wi, &mut wave_out[..], mask_ref)
                }
            } else if o.dynamic {
                let d: &mut dyn VecResampler<T> = r;
                d.process_into_buffer(&wave_in[..], &mut wave_out[..], mask_ref)
            } else {
                Resampler::process_into_buffer(r, &wave_in[..], &mut wave_out[..], mask_ref)
            }
        });
        let delta = alloc_count::snap().since(before);
        let active = |c: usize| mask.as_ref().map(|m| m.get(c).copied().unwrap_or(false)).unwrap_or(true);
        let (status, written) = match &res {
            Ok((i, w)) => {
                self.consumed += *i as u64;
                (format!("ok {} {}", i, w), *w)
            }
            Err(e) => (res_err(e), 0),
        };
        // untouched: everything outside [0,written) of active channels, and all of inactive channels
        let sent = T::sentinel().bits();
        let mut untouched = true;
        for (c, v) in wave_out.iter().enumerate() {
            let from = if res.is_ok() && active(c) { written.min(v.len()) } else { 0 };
            if v[from..].iter().any(|x| x.bits() != sent) {
                untouched = false;
            }
        }
        // 2: frames reported as written that still hold the pre-fill (the call returned a count it did not produce)
        let mut uflag = untouched as u8;
        if untouched && res.is_ok() {
            for (c, v) in wave_out.iter().enumerate() {
                if active(c) && v[..written.min(v.len())].iter().any(|x| x.bits() == sent) {
                    uflag = 2;
                }
            }
        }
        let data = if res.is_ok() {
            data_section(&wave_out, written, &active, o.dump)
        } else {
            "d".to_string()
        };
        format!(
            "{} | {} | a{},{},{} | u{} | {}",
            status,
            getters(&self.inst),
            delta.0,
            delta.1,
            delta.2,
            uflag,
            data
        )
    }

    /// procw / partw : the allocating wrappers
    fn call_wrap(&mut self, t: &[&str], partial: bool) -> String {
        let bad = "bad-op".to_string();
        if t.len() < 3 {
            return bad;
        }
        let mask = match parse_mask(t[0]) {
            Some(m) => m,
            None => return bad,
        };
        let sig = match Sig::parse(t[2]) {
            Some(s) => s,
            None => return bad,
        };
        let o = match parse_opts(&t[3..]) {
            Some(o) => o,
            None => return bad,
        };
        // (the wrapper does not report the consumed count either: a `dyn` caller advances by the wrapper trait's getter)
        let (inn, inm, nch) = if o.dynamic {
            with_inst!(&self.inst, r => {
                let d: &dyn VecResampler<T> = r;
                (d.input_frames_next(), d.input_frames_max(), d.nbr_channels())
            })
        } else {
            with_inst!(&self.inst, r => (
                Resampler::input_frames_next(r), Resampler::input_frames_max(r), Resampler::nbr_channels(r)))
        };
        let in_none = partial && t[1] == "none";
        let inlen = if in_none {
            0
        } else {
            match size_spec(t[1], inn, inm) {
                Some(v) => v,
                None => return bad,
            }
        };
        let wave_in = self.make_input(&sig, o.ic.unwrap_or(nch), inlen, &o, &mask);
        let mask_ref = mask.as_deref();
        let before = alloc_count::snap();
        let res = with_inst!(&mut self.inst, r => {
            if partial {
                let wi: Option<&[Vec<T>]> = if in_none { None } else { Some(&wave_in[..]) };
                if o.dynamic {
                    let d: &mut dyn VecResampler<T> = r;
                    d.process_partial(wi, mask_ref)
                } else {
                    Resampler::process_partial(r, wi, mask_ref)
                }
            } else if o.dynamic {
                let d: &mut dyn VecResampler<T> = r;
                d.process(&wave_in[..], mask_ref)
            } else {
                Resampler::process(r, &wave_in[..], mask_ref)
            }
        });
        let delta = alloc_count::snap().since(before);
        match res {
            Ok(out) => {
                // the wrapper does not report the consumed count: it is input_frames_next before the call
                self.consumed += inn as u64;
                let lens: Vec<String> = out.iter().map(|v| v.len().to_string()).collect();
                let all = |_c: usize| true;
                let data = data_section(&out, usize::MAX, &all, o.dump);
                format!(
                    "ok {} | {} | a{},{},{} | u1 | {}",
                    lens.join(","),
                    getters(&self.inst),
                    delta.0,
                    delta.1,
                    delta.2,
                    data
                )
            }
            Err(e) => format!(
                "{} | {} | a{},{},{} | u1 | d",
                res_err(&e),
                getters(&self.inst),
                delta.0,
                delta.1,
                delta.2
            ),
        }
    }

    fn op(&mut self, op: &str, t: &[&str]) -> String {
        match op {
            "proc" => self.call_into(t, false),
            "part" => self.call_into(t, true),
            "procw" => self.call_wrap(t, false),
            "partw" => self.call_wrap(t, true),
            "ratio" | "rel" => {
                let x = match t.first().and_then(|s| hexf64(s)) {
                    Some(x) => x,
                    None => return "bad-op".into(),
                };
                let ramp = t.get(1).map(|s| *s == "1").unwrap_or(false);
                let dynamic = t.get(2).map(|s| *s == "dyn").unwrap_or(false);
                let before = alloc_count::snap();
                let r = with_inst!(&mut self.inst, r => {
                    if dynamic {
                        let d: &mut dyn VecResampler<T> = r;
                        if op == "ratio" { d.set_resample_ratio(x, ramp) } else { d.set_resample_ratio_relative(x, ramp) }
                    } else if op == "ratio" {
                        Resampler::set_resample_ratio(r, x, ramp)
                    } else {
                        Resampler::set_resample_ratio_relative(r, x, ramp)
                    }
                });
                let d = alloc_count::snap().since(before);
                let st = match r {
                    Ok(()) => "ok".to_string(),
                    Err(e) => res_err(&e),
                };
                format!("{} | {} | a{},{},{}", st, getters(&self.inst), d.0, d.1, d.2)
            }
            "chunk" => {
                let n: usize = match t.first().and_then(|s| s.parse().ok()) {
                    Some(x) => x,
                    None => return "bad-op".into(),
                };
                let before = alloc_count::snap();
                let r = with_inst!(&mut self.inst, r => Resampler::set_chunk_size(r, n));
                let d = alloc_count::snap().since(before);
                let st = match r {
                    Ok(()) => "ok".to_string(),
                    Err(e) => res_err(&e),
                };
                format!("{} | {} | a{},{},{}", st, getters(&self.inst), d.0, d.1, d.2)
            }
            "reset" => {
                let before = alloc_count::snap();
                with_inst!(&mut self.inst, r => Resampler::reset(r));
                let d = alloc_count::snap().since(before);
                self.consumed = 0;
                format!("ok | {} | a{},{},{}", getters(&self.inst), d.0, d.1, d.2)
            }
            "bufs" => {
                // shapes of the four allocate helpers (directly, or through `&dyn VecResampler`)
                let dynamic = t.first().map(|s| *s == "dyn").unwrap_or(false);
                let shape = |v: &Vec<Vec<T>>, want: usize| -> String {
                    let lens: Vec<String> = v.iter().map(|c| c.len().to_string()).collect();
                    let caps_ok = v.iter().all(|c| c.capacity() >= want);
                    let zeros = v.iter().all(|c| c.iter().all(|x| x.bits() == T::of64(0.0).bits()));
                    format!("{}:{}:{}", lens.join(","), caps_ok as u8, zeros as u8)
                };
                let v = with_inst!(&self.inst, r => {
                    if dynamic {
                        let d: &dyn VecResampler<T> = r;
                        let (im, om) = (d.input_frames_max(), d.output_frames_max());
                        format!("{} {} {} {}", shape(&d.input_buffer_allocate(false), im), shape(&d.input_buffer_allocate(true), im),
                            shape(&d.output_buffer_allocate(false), om), shape(&d.output_buffer_allocate(true), om))
                    } else {
                        let (im, om) = (Resampler::input_frames_max(r), Resampler::output_frames_max(r));
                        format!("{} {} {} {}", shape(&Resampler::input_buffer_allocate(r, false), im),
                            shape(&Resampler::input_buffer_allocate(r, true), im),
                            shape(&Resampler::output_buffer_allocate(r, false), om),
                            shape(&Resampler::output_buffer_allocate(r, true), om))
                    }
                });
                format!("ok b {} | {} | a+", v, getters(&self.inst))
            }
            "get" => {
                let dynamic = t.first().map(|s| *s == "dyn").unwrap_or(false);
                let before = alloc_count::snap();
                let v = with_inst!(&self.inst, r => {
                    if dynamic {
                        let d: &dyn VecResampler<T> = r;
                        (d.input_frames_next(), d.input_frames_max(), d.output_frames_next(), d.output_frames_max(),
                         d.output_delay(), d.nbr_channels())
                    } else {(
                    Resampler::input_frames_next(r),
                    Resampler::input_frames_max(r),
                    Resampler::output_frames_next(r),
                    Resampler::output_frames_max(r),
                    Resampler::output_delay(r),
                    Resampler::nbr_channels(r)
                )}});
                let d = alloc_count::snap().since(before);
                format!(
                    "ok | g {} {} {} {} {} {} | a{},{},{}",
                    v.0, v.1, v.2, v.3, v.4, v.5, d.0, d.1, d.2
                )
            }
            _ => "bad-op".into(),
        }
    }
}

impl Session {
    pub fn new() -> Self {
        Session {
            slots: Vec::new(),
            dead: false,
        }
    }

    pub fn step(&mut self, line: &str) -> String {
        let t: Vec<&str> = line.split_whitespace().collect();
        if t.is_empty() {
            return "bad-op".into();
        }
        if t[0] == "hist" {
            self.slots.clear();
            self.dead = false;
            return "hist".into();
        }
        if self.dead {
            return "skip".into();
        }
        let slot: usize = match t[0].parse() {
            Ok(s) => s,
            Err(_) => return "bad-op".into(),
        };
        if t.len() < 2 {
            return "bad-op".into();
        }
        let r = catch_unwind(AssertUnwindSafe(|| self.step_inner(slot, t[1], &t[2..])));
        match r {
            Ok(s) => s,
            Err(_) => {
                self.dead = true;
                "panic".into()
            }
        }
    }

    fn step_inner(&mut self, slot: usize, op: &str, t: &[&str]) -> String {
        if op == "new" {
            while self.slots.len() <= slot {
                self.slots.push(None);
            }
            if t.is_empty() {
                return "bad-op".into();
            }
            let ty = t[0];
            let made = match ty {
                "f32" => new_inst::<f32>(&t[1..]).map(|r| r.map(|i| AnySlot::F32(Slot { inst: i, consumed: 0 }))),
                "f64" => new_inst::<f64>(&t[1..]).map(|r| r.map(|i| AnySlot::F64(Slot { inst: i, consumed: 0 }))),
                _ => return "bad-op".into(),
            };
            return match made {
                Err(b) => b,
                Ok(Err(e)) => {
                    self.slots[slot] = None;
                    ctor_err(e)
                }
                Ok(Ok(s)) => {
                    let g = match &s {
                        AnySlot::F32(x) => getters(&x.inst),
                        AnySlot::F64(x) => getters(&x.inst),
                    };
                    self.slots[slot] = Some(s);
                    format!("ok | {}", g)
                }
            };
        }
        match self.slots.get_mut(slot) {
            Some(Some(AnySlot::F32(s))) => s.op(op, t),
            Some(Some(AnySlot::F64(s))) => s.op(op, t),
            _ => "no-inst".into(),
        }
    }
}

/// C18: run every history file alone, then all of them interleaved on `n` threads with the
/// sessions migrating between threads at op boundaries; print `same <file>` / `diff <file> <line>`.
pub fn run_threads(n: usize, files: &[String]) {
    use std::collections::VecDeque;
    use std::sync::{Arc, Mutex};
    let mut histories: Vec<Vec<String>> = Vec::new();
    for f in files {
        let text = std::fs::read_to_string(f).unwrap_or_default();
        histories.push(
            text.lines()
                .map(|l| l.trim().to_string())
                .filter(|l| !l.is_empty() && !l.starts_with('#'))
                .collect(),
        );
    }
    // solo runs
    let mut solo: Vec<Vec<String>> = Vec::new();
    for h in &histories {
        let mut s = Session::new();
        solo.push(h.iter().map(|l| strip_alloc(&s.step(l))).collect());
    }
    struct Job {
        id: usize,
        pos: usize,
        sess: Session,
        obs: Vec<String>,
        threads_seen: Vec<std::thread::ThreadId>,
    }
    let queue: Arc<Mutex<VecDeque<Job>>> = Arc::new(Mutex::new(VecDeque::new()));
    let done: Arc<Mutex<Vec<Job>>> = Arc::new(Mutex::new(Vec::new()));
    for id in 0..histories.len() {
        queue.lock().unwrap().push_back(Job {
            id,
            pos: 0,
            sess: Session::new(),
            obs: vec![],
            threads_seen: vec![],
        });
    }
    let histories = Arc::new(histories);
    let mut handles = vec![];
    for tnum in 0..n {
        let queue = queue.clone();
        let done = done.clone();
        let histories = histories.clone();
        handles.push(std::thread::spawn(move || {
            let mut rng = crate::signal::splitmix64(tnum as u64 + 1);
            loop {
                let job = queue.lock().unwrap().pop_front();
                let mut job = match job {
                    Some(j) => j,
                    None => break,
                };
                let me = std::thread::current().id();
                if !job.threads_seen.contains(&me) {
                    job.threads_seen.push(me);
                }
                // run a random small number of ops, then hand the session to whoever comes next
                rng = crate::signal::splitmix64(rng);
                let burst = 1 + (rng % 3) as usize;
                let h = &histories[job.id];
                for _ in 0..burst {
                    if job.pos >= h.len() {
                        break;
                    }
                    let o = job.sess.step(&h[job.pos]);
                    job.obs.push(strip_alloc(&o));
                    job.pos += 1;
                }
                if job.pos >= h.len() {
                    done.lock().unwrap().push(job);
                } else {
                    queue.lock().unwrap().push_back(job);
                }
            }
        }));
    }
    for h in handles {
        let _ = h.join();
    }
    let done = done.lock().unwrap();
    let mut migrations = 0usize;
    for job in done.iter() {
        migrations += job.threads_seen.len().saturating_sub(1);
        let s = &solo[job.id];
        let mut first_diff = None;
        for (k, (a, b)) in s.iter().zip(job.obs.iter()).enumerate() {
            if a != b {
                first_diff = Some(k);
                break;
            }
        }
        if first_diff.is_none() && s.len() != job.obs.len() {
            first_diff = Some(s.len().min(job.obs.len()));
        }
        match first_diff {
            None => println!("same {} ops={} threads={}", files[job.id], s.len(), job.threads_seen.len()),
            Some(k) => println!("diff {} line={}", files[job.id], k),
        }
    }
    println!("summary histories={} finished={} migrations={}", files.len(), done.len(), migrations);
}

/// allocation counts are per thread and formatting-dependent: not part of the determinism claim
fn strip_alloc(s: &str) -> String {
    s.split(" | ")
        .filter(|p| !p.starts_with('a') || !p[1..].chars().all(|c| c.is_ascii_digit() || c == ','))
        .collect::<Vec<_>>()
        .join(" | ")
}
