//! rv-worker: executes the line protocol of /verif against the real rubato crate (public API only)
//! and prints one canonical observation line per operation.
//!
//! Modes
//!   rv-worker run                  read ops from stdin, one observation per line on stdout
//!   rv-worker threads <n> <files…> run every history file alone, then all of them on <n> threads
//!                                  with instances migrating between threads at op boundaries,
//!                                  and report whether every observation stream is identical
//!   rv-worker kern                 interpolator-kernel protocol (C15), see kern.rs
mod alloc_count;
mod kern;
mod session;
mod signal;

use std::io::{BufRead, Write};

fn main() {
    if std::env::var_os("RV_PANIC_MSG").is_none() {
        std::panic::set_hook(Box::new(|_| {}));
    }
    let args: Vec<String> = std::env::args().collect();
    let mode = args.get(1).map(|s| s.as_str()).unwrap_or("run");
    match mode {
        "run" => run_stdin(),
        "threads" => {
            let n: usize = args.get(2).and_then(|s| s.parse().ok()).unwrap_or(4);
            session::run_threads(n, &args[3..]);
        }
        "kern" => kern::run_stdin(),
        _ => {
            eprintln!("unknown mode {mode}");
            std::process::exit(2);
        }
    }
}

/// Watchdog: an operation that has not returned after `RV_OP_TIMEOUT` seconds (default 30) is reported as `hang`
/// and the worker is killed (a valid call that never completes is a failure of C03, not a reason to block the check).
fn start_watchdog(started: std::sync::Arc<std::sync::atomic::AtomicU64>) {
    let limit: u64 = std::env::var("RV_OP_TIMEOUT").ok().and_then(|s| s.parse().ok()).unwrap_or(30);
    let t0 = std::time::Instant::now();
    std::thread::spawn(move || loop {
        std::thread::sleep(std::time::Duration::from_millis(500));
        let s = started.load(std::sync::atomic::Ordering::SeqCst);
        if s != 0 && t0.elapsed().as_secs() + 1 > s + limit {
            // raw write: the main thread holds the stdout lock
            let msg = b"hang\n";
            unsafe {
                libc_write(1, msg.as_ptr(), msg.len());
            }
            std::process::abort();
        }
    });
}

extern "C" {
    #[link_name = "write"]
    fn libc_write(fd: i32, buf: *const u8, count: usize) -> isize;
}

fn run_stdin() {
    let stdin = std::io::stdin();
    let stdout = std::io::stdout();
    let mut out = stdout.lock();
    let mut sess = session::Session::new();
    let started = std::sync::Arc::new(std::sync::atomic::AtomicU64::new(0));
    let t0 = std::time::Instant::now();
    start_watchdog(started.clone());
    for line in stdin.lock().lines() {
        let line = match line {
            Ok(l) => l,
            Err(_) => break,
        };
        let l = line.trim();
        if l.is_empty() || l.starts_with('#') {
            continue;
        }
        // announce the op before executing it, so that an abort identifies the step
        let _ = writeln!(out, "> {}", l);
        let _ = out.flush();
        started.store(t0.elapsed().as_secs() + 1, std::sync::atomic::Ordering::SeqCst);
        let obs = sess.step(l);
        started.store(0, std::sync::atomic::Ordering::SeqCst);
        let _ = writeln!(out, "{}", obs);
        let _ = out.flush();
    }
}
