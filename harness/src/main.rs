//! rv-worker: executes the line protocol of /verif against the real rubato crate (public API only)
//! and prints one canonical observation line per operation.
//!
//! Modes
//!   rv-worker run                  read ops from stdin, one observation per line on stdout
//!   rv-worker threads <n> <files…> run every history file alone, then all of them on <n> threads
//!                                  with instances migrating between threads at op boundaries,
//!                                  and report whether every observation stream is identical
//!   rv-worker kern                 interpolator-kernel protocol (C15), see kern.rs
mod alloc_count;
mod kern;
mod session;
mod signal;

use std::io::{BufRead, Write};

fn main() {
    std::panic::set_hook(Box::new(|_| {}));
    let args: Vec<String> = std::env::args().collect();
    let mode = args.get(1).map(|s| s.as_str()).unwrap_or("run");
    match mode {
        "run" => run_stdin(),
        "threads" => {
            let n: usize = args.get(2).and_then(|s| s.parse().ok()).unwrap_or(4);
            session::run_threads(n, &args[3..]);
        }
        "kern" => kern::run_stdin(),
        _ => {
            eprintln!("unknown mode {mode}");
            std::process::exit(2);
        }
    }
}

fn run_stdin() {
    let stdin = std::io::stdin();
    let stdout = std::io::stdout();
    let mut out = stdout.lock();
    let mut sess = session::Session::new();
    for line in stdin.lock().lines() {
        let line = match line {
            Ok(l) => l,
            Err(_) => break,
        };
        let l = line.trim();
        if l.is_empty() || l.starts_with('#') {
            continue;
        }
        // announce the op before executing it, so that an abort identifies the step
        let _ = writeln!(out, "> {}", l);
        let _ = out.flush();
        let obs = sess.step(l);
        let _ = writeln!(out, "{}", obs);
        let _ = out.flush();
    }
}
