//! Counting global allocator with per-thread counters (C09).
use std::alloc::{GlobalAlloc, Layout, System};
use std::cell::Cell;

thread_local! {
    static ALLOCS: Cell<u64> = const { Cell::new(0) };
    static REALLOCS: Cell<u64> = const { Cell::new(0) };
    static DEALLOCS: Cell<u64> = const { Cell::new(0) };
}

pub struct Counting;

unsafe impl GlobalAlloc for Counting {
    unsafe fn alloc(&self, l: Layout) -> *mut u8 {
        let _ = ALLOCS.try_with(|c| c.set(c.get() + 1));
        System.alloc(l)
    }
    unsafe fn dealloc(&self, p: *mut u8, l: Layout) {
        let _ = DEALLOCS.try_with(|c| c.set(c.get() + 1));
        System.dealloc(p, l)
    }
    unsafe fn alloc_zeroed(&self, l: Layout) -> *mut u8 {
        let _ = ALLOCS.try_with(|c| c.set(c.get() + 1));
        System.alloc_zeroed(l)
    }
    unsafe fn realloc(&self, p: *mut u8, l: Layout, n: usize) -> *mut u8 {
        let _ = REALLOCS.try_with(|c| c.set(c.get() + 1));
        System.realloc(p, l, n)
    }
}

#[global_allocator]
static GLOBAL: Counting = Counting;

#[derive(Clone, Copy, Debug, PartialEq, Eq)]
pub struct Snap(pub u64, pub u64, pub u64);

pub fn snap() -> Snap {
    Snap(
        ALLOCS.with(|c| c.get()),
        REALLOCS.with(|c| c.get()),
        DEALLOCS.with(|c| c.get()),
    )
}

impl Snap {
    pub fn since(self, earlier: Snap) -> Snap {
        Snap(self.0 - earlier.0, self.1 - earlier.1, self.2 - earlier.2)
    }
}
