//! Input signals, defined so that the Lean driver can regenerate bit-identical data.
//!   z            zeros
//!   i            index signal: value = g + 0.25*ch           (g = global frame number)
//!   r<seed>      hash noise in [-1,1): ((splitmix64(seed ^ ch*K1 ^ g*K2) >> 11) as f64) * 2^-52 - 1
//!   p<deg>,<seed> polynomial of degree <deg> with coefficients in -3..3, argument u = g/64 (Horner)
//!   s<hex f64>   sine, sin(2*pi*f*g + 0.3*ch)  (libm: compared with a tolerance only)
//!   k<pos>       unit impulse at global frame <pos> on every channel
//!   d<seed>      the noise r<seed> scaled by 2^-140  (subnormal once cast to f32)
//!   e<seed>      the noise r<seed> scaled by 2^-1040 (subnormal in f64, zero in f32)
//!   b<P>,<seed>  bursts: the noise r<seed> where (g / P + ch) is even, exact zeros elsewhere (channels alternate)
pub const K1: u64 = 0x9E3779B97F4A7C15;
pub const K2: u64 = 0xC2B2AE3D27D4EB4F;

pub fn splitmix64(x: u64) -> u64 {
    let mut z = x.wrapping_add(0x9E3779B97F4A7C15);
    z = (z ^ (z >> 30)).wrapping_mul(0xBF58476D1CE4E5B9);
    z = (z ^ (z >> 27)).wrapping_mul(0x94D049BB133111EB);
    z ^ (z >> 31)
}

#[derive(Clone, Debug)]
pub enum Sig {
    Zero,
    Index,
    Noise(u64),
    Poly(usize, u64),
    Sine(f64),
    Impulse(u64),
    Tiny32(u64),
    Tiny64(u64),
    Burst(u64, u64),
}

impl Sig {
    pub fn parse(s: &str) -> Option<Sig> {
        let (h, t) = s.split_at(1);
        match h {
            "z" => Some(Sig::Zero),
            "i" => Some(Sig::Index),
            "r" => t.parse().ok().map(Sig::Noise),
            "p" => {
                let mut it = t.split(',');
                let d = it.next()?.parse().ok()?;
                let sd = it.next()?.parse().ok()?;
                Some(Sig::Poly(d, sd))
            }
            "s" => u64::from_str_radix(t, 16).ok().map(|b| Sig::Sine(f64::from_bits(b))),
            "k" => t.parse().ok().map(Sig::Impulse),
            "d" => t.parse().ok().map(Sig::Tiny32),
            "e" => t.parse().ok().map(Sig::Tiny64),
            "b" => {
                let mut it = t.split(',');
                let p: u64 = it.next()?.parse().ok()?;
                let sd = it.next()?.parse().ok()?;
                if p == 0 {
                    return None;
                }
                Some(Sig::Burst(p, sd))
            }
            _ => None,
        }
    }

    pub fn coeff(seed: u64, k: usize) -> f64 {
        (splitmix64(seed ^ (k as u64).wrapping_mul(K1)) % 7) as f64 - 3.0
    }

    pub fn value(&self, ch: usize, g: u64) -> f64 {
        match self {
            Sig::Zero => 0.0,
            Sig::Index => g as f64 + 0.25 * ch as f64,
            Sig::Noise(seed) => {
                let h = splitmix64(seed ^ (ch as u64).wrapping_mul(K1) ^ g.wrapping_mul(K2));
                ((h >> 11) as f64) * (1.0 / 4503599627370496.0) - 1.0
            }
            Sig::Poly(deg, seed) => {
                let u = g as f64 * 0.015625;
                let mut acc = 0.0f64;
                let mut k = *deg + 1;
                while k > 0 {
                    k -= 1;
                    acc = acc * u + Sig::coeff(*seed, k);
                }
                acc + ch as f64
            }
            Sig::Sine(f) => (2.0 * std::f64::consts::PI * f * g as f64 + 0.3 * ch as f64).sin(),
            Sig::Tiny32(seed) => Sig::Noise(*seed).value(ch, g) * f64::from_bits(0x3730000000000000),
            Sig::Tiny64(seed) => Sig::Noise(*seed).value(ch, g) * f64::from_bits(0x0000000400000000),
            Sig::Burst(p, seed) => {
                if (g / *p + ch as u64) % 2 == 0 {
                    Sig::Noise(*seed).value(ch, g)
                } else {
                    0.0
                }
            }
            Sig::Impulse(p) => {
                if g == *p {
                    1.0
                } else {
                    0.0
                }
            }
        }
    }
}
