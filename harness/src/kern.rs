//! Interpolator-kernel protocol (C15, table read-out for C01/C02).
//!
//!   dot <T> <kind> <len> <osf> <fcut:hex f32> <win> <wave> <wavelen> <index> <sub>
//!        -> `v <bits hex> <bound bits hex>`   value and Σ|wave·tap| (computed in f64 from the scalar table)
//!           or `panic` / `unavailable`
//!   tab <T> <kind> <len> <osf> <fcut> <win>
//!        -> `t <hex>,<hex>,…`  the table read out with unit impulses, row-major [sub][k]
//! kind: scalar | avx | sse ;  wave: imp:<pos> | int:<seed> | rnd:<seed> | dyn:<seed> | poi:<seed>
//! (poi = noise inside the window, NaN everywhere else: a kernel that reads outside returns NaN)
use crate::session::{window, Smp};
use crate::signal::splitmix64;
use rubato::sinc_interpolator::sinc_interpolator_avx::AvxInterpolator;
use rubato::sinc_interpolator::sinc_interpolator_sse::SseInterpolator;
use rubato::sinc_interpolator::{ScalarInterpolator, SincInterpolator};
use std::collections::HashMap;
use std::io::{BufRead, Write};
use std::panic::{catch_unwind, AssertUnwindSafe};

type Key = (String, usize, usize, u32, usize);

struct Cache<T: Smp> {
    map: HashMap<Key, Option<Box<dyn SincInterpolator<T>>>>,
}

impl<T: Smp> Cache<T> {
    fn get(&mut self, kind: &str, len: usize, osf: usize, fcut: f32, win: usize) -> Option<&dyn SincInterpolator<T>> {
        let key = (kind.to_string(), len, osf, fcut.to_bits(), win);
        let e = self.map.entry(key).or_insert_with(|| {
            let w = window(win)?;
            let made = catch_unwind(AssertUnwindSafe(|| -> Option<Box<dyn SincInterpolator<T>>> {
                Some(match kind {
                    "scalar" => Box::new(ScalarInterpolator::<T>::new(len, osf, fcut, w)),
                    "avx" => Box::new(AvxInterpolator::<T>::new(len, osf, fcut, w).ok()?),
                    "sse" => Box::new(SseInterpolator::<T>::new(len, osf, fcut, w).ok()?),
                    _ => return None,
                })
            }));
            made.unwrap_or(None)
        });
        e.as_deref()
    }
}

pub fn wave_value(spec: &str, k: usize, index: usize, len: usize) -> Option<f64> {
    let (kind, arg) = spec.split_once(':')?;
    let a: u64 = arg.parse().ok()?;
    let h = splitmix64(a ^ (k as u64).wrapping_mul(crate::signal::K2));
    let noise = ((h >> 11) as f64) * (1.0 / 4503599627370496.0) - 1.0;
    Some(match kind {
        "imp" => {
            if k as u64 == a {
                1.0
            } else {
                0.0
            }
        }
        "int" => (h % 17) as f64 - 8.0,
        "rnd" => noise,
        "dyn" => {
            let e = (splitmix64(h) % 81) as i32 - 40;
            noise * (2.0f64).powi(e)
        }
        // subnormal-range samples: noise scaled into the subnormal range of f32 / of f64 (gradual underflow must be kept)
        "s32" => noise * f64::from_bits(0x3730000000000000),
        "s64" => noise * f64::from_bits(0x0000000400000000),
        "poi" => {
            if k >= index && k < index + len {
                noise
            } else {
                f64::NAN
            }
        }
        _ => return None,
    })
}

fn handle<T: Smp>(cache: &mut Cache<T>, t: &[&str]) -> String {
    let bad = "bad-op".to_string();
    let cmd = t[0];
    if t.len() < 7 {
        return bad;
    }
    let kind = t[2];
    let len: usize = match t[3].parse() { Ok(v) => v, Err(_) => return bad };
    let osf: usize = match t[4].parse() { Ok(v) => v, Err(_) => return bad };
    let fcut = match u32::from_str_radix(t[5], 16) { Ok(v) => f32::from_bits(v), Err(_) => return bad };
    let win: usize = match t[6].parse() { Ok(v) => v, Err(_) => return bad };
    let ip = match cache.get(kind, len, osf, fcut, win) {
        Some(i) => i,
        None => return "unavailable".into(),
    };
    match cmd {
        "tab" => {
            let n = ip.len();
            let mut out = String::from("t ");
            let mut wave = vec![T::of64(0.0); 2 * n + 2];
            let mut first = true;
            for sub in 0..ip.nbr_sincs() {
                for k in 0..n {
                    wave[k] = T::of64(1.0);
                    let v = ip.get_sinc_interpolated(&wave, 0, sub);
                    wave[k] = T::of64(0.0);
                    if !first {
                        out.push(',');
                    }
                    first = false;
                    out.push_str(&format!("{:x}", v.bits()));
                }
            }
            out
        }
        "dot" => {
            if t.len() < 11 {
                return bad;
            }
            let spec = t[7];
            let wavelen: usize = match t[8].parse() { Ok(v) => v, Err(_) => return bad };
            let index: usize = match t[9].parse() { Ok(v) => v, Err(_) => return bad };
            let sub: usize = match t[10].parse() { Ok(v) => v, Err(_) => return bad };
            let mut wave: Vec<T> = Vec::with_capacity(wavelen);
            for k in 0..wavelen {
                match wave_value(spec, k, index, ip.len()) {
                    Some(v) => wave.push(T::of64(v)),
                    None => return bad,
                }
            }
            let r = catch_unwind(AssertUnwindSafe(|| ip.get_sinc_interpolated(&wave, index, sub)));
            match r {
                Ok(v) => format!("v {:x}", v.bits()),
                Err(_) => "panic".into(),
            }
        }
        _ => bad,
    }
}

pub fn run_stdin() {
    let stdin = std::io::stdin();
    let stdout = std::io::stdout();
    let mut out = stdout.lock();
    let mut c32 = Cache::<f32> { map: HashMap::new() };
    let mut c64 = Cache::<f64> { map: HashMap::new() };
    for line in stdin.lock().lines() {
        let line = match line {
            Ok(l) => l,
            Err(_) => break,
        };
        let t: Vec<&str> = line.split_whitespace().collect();
        if t.is_empty() || t[0].starts_with('#') {
            continue;
        }
        let r = if t.len() < 2 {
            "bad-op".to_string()
        } else {
            match t[1] {
                "f32" => handle::<f32>(&mut c32, &t),
                "f64" => handle::<f64>(&mut c64, &t),
                _ => "bad-op".to_string(),
            }
        };
        let _ = writeln!(out, "{}", r);
    }
    let _ = out.flush();
}
