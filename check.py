#!/usr/bin/env python3
"""check.py <property> [--tier quick|thorough] [--seed N] [--replay FILE]

Protocol (DESIGN.md 2.4): translator -> Lean proofs + axiom audit -> correspondence (model vs real code)
-> property oracle on the real code -> known findings -> verdict + evidence/<id>.json.
Exit 0 if the property held on everything explored (listed known findings are printed and tolerated);
exit 1 with `VIOLATION property=<id> replay=<path>` otherwise.
"""
import argparse
import json
import os
import random
import sys
import time

ROOT = os.path.dirname(os.path.abspath(__file__))
sys.path.insert(0, ROOT)
from vlib import build, proto, props  # noqa: E402

TRUSTED_BASE = [
    "Lean 4.33 kernel (thorough tier re-checks the compiled modules with leanchecker)",
    "axioms: propext, Classical.choice, Quot.sound only (audited with #print axioms on every property theorem)",
    "translate/rs2lean.py (narrow Rust->Lean expression translator plus text-level extraction, fails closed naming the item; "
    "items G1-G18: kernels, blends, windows, loop table, interpolation.rs statements, effect table, scalar formulas of all seven types "
    "incl. loop control / constructors / setters / make_interpolator / FftResampler, wrapper forwarding table, ambient-state "
    "scan, validate_buffers decision list and call sites, sinc.rs, reset table, constructor storage, history carry / input load, "
    "FFT data movement, provided trait methods, constructor validation, reported counts of the asynchronous calls)",
    "hand-written Lean model of the state machines, tied to /repo by the correspondence check of this run",
    "harness/ (rv-worker, public API of rubato only), check.py and vlib/ (generator, diff, oracles)",
    "Lean compiler/runtime Float, Float32 for the executable twin (never used by a theorem)",
    "rustc/cargo, the host CPU (AVX/SSE dispatch); the algorithm of realfft/rustfft is outside the model (their result is "
    "modelled by a naive-DFT twin compared by tolerance for blocks <= 320)",
]


def load_known():
    p = os.path.join(ROOT, "known_findings.json")
    if not os.path.exists(p):
        return {"findings": [], "fixed": []}
    return json.load(open(p))


def write_replay(pid, seed, payload):
    d = os.path.join(ROOT, "replays")
    os.makedirs(d, exist_ok=True)
    path = os.path.join(d, f"{pid}-{seed}-{int(time.time())}.json")
    with open(path, "w") as f:
        json.dump(payload, f, indent=1, default=str)
    return path


def main():
    ap = argparse.ArgumentParser()
    ap.add_argument("pid")
    ap.add_argument("--tier", default=os.environ.get("VERIF_TIER", "quick"), choices=["quick", "thorough"])
    ap.add_argument("--seed", type=int, default=int(os.environ.get("VERIF_SEED", "1") or 1))
    ap.add_argument("--replay", default=None)
    ap.add_argument("--jobs", type=int, default=16)
    args = ap.parse_args()
    pid = args.pid
    if pid not in props.REGISTRY:
        print(f"unknown property {pid}", file=sys.stderr)
        return 2
    P = props.REGISTRY[pid](tier=args.tier, seed=args.seed, jobs=args.jobs)
    t0 = time.time()
    rng = random.Random(args.seed * 1000003 + int(pid[1:]))
    known = load_known()
    broken = []       # broken obligations / ties: (kind, name, detail)
    violations = []   # concrete failing inputs not covered by known findings
    known_hits = {}   # finding id -> example
    notes = []

    # 1. tie A: translator
    ok_tr, msg_tr, item = build.translate()
    if not ok_tr:
        broken.append(("translator", item.get("item", "?"), item.get("message", msg_tr)))
    # 2. builds
    ok_w, out_w, _ = build.build_worker()
    if not ok_w:
        print(out_w[-3000:])
        print("harness does not build against /repo", file=sys.stderr)
        broken.append(("harness-build", "rv-worker", out_w[-500:]))
    ok_d, out_d, _ = (False, "", 0)
    if ok_tr:
        ok_d, out_d, _ = build.build_driver()
        if not ok_d:
            broken.append(("model-build", "RubatoModel", out_d[-800:]))
    else:
        # the source no longer translates: no theorem is checked in this run.  For the SEARCH for a failing input the model
        # of the last tree that did translate (the committed Generated.lean) is still useful: where the implementation now
        # departs from it is where to look.  Its observations never decide anything by themselves.
        build.restore_generated()
        ok_d, out_d, _ = build.build_driver()
        notes.append("translator failed: the search used the model generated from the last translatable tree")
    proofs = {"obligations": 0, "discharged": 0, "failed": [], "axioms": {}}
    if ok_tr and ok_d:
        proofs = build.build_proofs(pid, clean=(args.tier == "thorough"))
        for f in proofs["failed"]:
            broken.append(("theorem", f, proofs.get("log", "")[-1500:]))
    else:
        proofs["obligations"] = len(build.theorem_names(pid))
    checker = {}
    if args.tier == "thorough" and proofs.get("ok"):
        checker = build.leanchecker([f"RubatoProofs.Props.{pid}"] + P.checker_modules)
        for m, r in checker.items():
            if r["rc"] != 0:
                broken.append(("leanchecker", m, r["out"]))

    # 3./4. correspondence + oracle on the implementation
    cov = {"evaluations": 0, "traces_validated_against_impl": 0, "distinct": set(), "samples": [], "dist": {}}
    if ok_w:
        try:
            if args.replay:
                rp = json.load(open(args.replay))
                hs = [proto.History(rp["ops"], rp.get("meta", {}))] if "ops" in rp else []
                res = P.run(rng, histories=hs, have_model=ok_d)
            else:
                res = P.run(rng, have_model=ok_d)
        except Exception:
            # an internal error of the machinery: reported as such (the property is not shown to hold by this run)
            import traceback
            tb = traceback.format_exc()
            print(tb, file=sys.stderr)
            broken.append(("check-internal-error", "correspondence / oracle run", tb[-1500:]))
            res = {"coverage": cov, "disagreements": [], "violations": [], "notes": ["internal error in the exploration step"]}
        cov = res["coverage"]
        for d in res["disagreements"]:
            broken.append(("correspondence", d.get("what", "?"), d))
        for v in res["violations"]:
            fid = props.match_known(known, pid, v)
            if fid:
                known_hits.setdefault(fid, v)
            else:
                violations.append(v)
        notes += res.get("notes", [])

    # 5. known findings still failing? (they print; stale ones are noted)
    for f in known.get("findings", []):
        if f.get("status") == "open" and pid in f.get("properties", []):
            if f["id"] in known_hits:
                print(f"KNOWN-FINDING: property={pid} {f['id']}: {f['what']}")
            else:
                notes.append(f"known finding {f['id']} not reproduced in this run (not sampled or stale)")

    # 6. verdict
    rc = 0
    if violations:
        v = violations[0]
        path = write_replay(pid, args.seed, v)
        print(f"VIOLATION property={pid} replay={path}")
        rc = 1
    elif broken:
        # a proof obligation or the tie broke and the search found no failing input
        kind, name, detail = broken[0]
        path = write_replay(pid, args.seed, {"broken": kind, "name": name, "detail": detail,
                                             "all_broken": [(k, n) for k, n, _ in broken],
                                             "first_disagreements": [d for k, n, d in broken if k == "correspondence"][:3]})
        print(f"broken {kind}: {name}")
        print(f"VIOLATION property={pid} replay={path} no-failing-input-found")
        rc = 1

    # evidence
    ev = {
        "property_id": pid,
        "tier": args.tier,
        "seed": args.seed,
        "level": "proof",
        "coverage": {
            "obligations": max(1, proofs.get("obligations", 0)),
            "discharged": proofs.get("discharged", 0),
            "checker_cmd": f"cd lean && lake build RubatoProofs.Props.{pid} && lake env lean <audit of #print axioms>"
                           + (" && lake env leanchecker RubatoProofs.Props." + pid if args.tier == "thorough" else ""),
            "trusted_base": TRUSTED_BASE,
            "theorems": {n: proofs.get("axioms", {}).get(n) for n in build.theorem_names(pid)},
            "failed_obligations": proofs.get("failed", []),
            "leanchecker": checker,
            "translator": msg_tr,
            "evaluations": cov.get("evaluations", 0),
            "traces_validated_against_impl": cov.get("traces_validated_against_impl", 0),
            "distinct_nontrivial": len(cov.get("distinct", ())),
            "rule": P.rule,
            "distribution": cov.get("dist", {}),
            "samples": cov.get("samples", [])[:6] or [{"theorems": build.theorem_names(pid)[:6]}],
            "known_findings_reported": sorted(known_hits),
            "notes": notes[:20],
        },
        "assumptions": P.assumptions,
        "wall_s": round(time.time() - t0, 2),
        "violations": len(violations) + (1 if (broken and not violations) else 0),
    }
    if ev["coverage"]["discharged"] < 1:
        # nothing was discharged (a build broke): the proof-level counters would be invalid, fall back to the
        # exploration-style counters the schema accepts and say so
        ev["coverage"]["explanation"] = "no theorem could be checked in this run (see failed_obligations)"
        del ev["coverage"]["obligations"], ev["coverage"]["discharged"]
    os.makedirs(os.path.join(ROOT, "evidence"), exist_ok=True)
    with open(os.path.join(ROOT, "evidence", f"{pid}.json"), "w") as f:
        json.dump(ev, f, indent=1, default=str)
    print(f"{pid} tier={args.tier} seed={args.seed}: theorems {proofs.get('discharged', 0)}/{proofs.get('obligations', 0)}, "
          f"histories {cov.get('traces_validated_against_impl', 0)}, ops {cov.get('evaluations', 0)}, "
          f"known findings {sorted(known_hits)}, violations {len(violations)}, broken {len(broken)}, "
          f"{ev['wall_s']} s")
    return rc


if __name__ == "__main__":
    sys.exit(main())
