#!/usr/bin/env python3
import sys, random, collections
sys.path.insert(0, '/verif')
from vlib import gen, proto
seed = int(sys.argv[1]) if len(sys.argv) > 1 else 1
n = int(sys.argv[2]) if len(sys.argv) > 2 else 200
kinds = sys.argv[3].split(',') if len(sys.argv) > 3 else gen.ALL
rc = sys.argv[4] if len(sys.argv) > 4 else 'any'
rng = random.Random(seed)
hs = []
for i in range(n):
    cfg = gen.gen_cfg(rng, kinds=kinds, max_chunk=600)
    hs.append(gen.gen_valid_history(rng, cfg, rng.randint(3, 40), ratio_changes=rc))
proto.run_both(hs, jobs=16)
bad = 0
stat = collections.Counter()
for h in hs:
    d = proto.compare(h)
    for r in h.real:
        stat[r.split(' | ')[0].split()[0] + (' ' + r.split()[1] if r.startswith('err') else '')] += 1
    if d:
        bad += 1
        if bad <= 8:
            print('DISAGREE', h.meta['cfg'], d)
            k = d['step']
            for j in range(max(0,k-3), k+1):
                print('   ', h.ops[j]); print('      R', h.real[j][:200]); print('      M', h.model[j][:200])
print('histories', n, 'disagreements', bad, dict(stat))
shown = 0
for h in hs:
    for k, r in enumerate(h.real):
        if (r.startswith('err') or r in ('abort','panic')) and shown < 12:
            shown += 1
            print(h.meta['cfg']); 
            for j in range(max(0,k-2),k+1): print('   ', h.ops[j], '=>', h.real[j][:100])
